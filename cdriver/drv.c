/* Persistent C client used by the C05/C06/C14/C16/C17 checks.
 * Built against clock-bound-ffi/include/clockbound.h and linked with libclockbound built from /repo.
 * Defines its own clock_gettime so that the library reads virtual time (M1).
 *
 * Line protocol on stdin/stdout:
 *   T <real_s> <real_ns> <mono_s> <mono_ns>   set the virtual clocks                 (no reply)
 *   O <path>                                  clockbound_open    -> "O ok" | "O err <kind> <errno> <detail|->"
 *   o <path>                                  clockbound_open(path, NULL) -> "O ok" | "O null"
 *   N                                         clockbound_now     -> "N ok <es> <ens> <ls> <lns> <status> <ids>" | "N err <kind> <errno> <detail|->"
 *   C                                         clockbound_close   -> "C ok" | "C err"
 *   U <path> <offset> <hex>                   queue a write to the segment file, performed at the next
 *                                             virtual clock read (the daemon updates the segment while
 *                                             the client is inside clockbound_now)     (no reply)
 *   S                                         ABI report         -> "S <...>"
 *   Q                                         quit
 */
#define _GNU_SOURCE
#include <stdio.h>
#include <stdlib.h>
#include <string.h>
#include <stddef.h>
#include <time.h>
#include <unistd.h>
#include <sys/syscall.h>
#include <fcntl.h>
#include "clockbound.h"

static int virt_on = 0;
static struct timespec v_real, v_mono;
static char ids[64];
static int nids = 0;

#define MAXPEND 4
static struct { char path[1024]; long off; unsigned char data[128]; size_t len; } pend[MAXPEND];
static int npend = 0;

static void flush_pending(void)
{
	int i;
	for (i = 0; i < npend; i++) {
		int fd = open(pend[i].path, O_WRONLY);
		if (fd >= 0) {
			if (pwrite(fd, pend[i].data, pend[i].len, pend[i].off) < 0) { /* reported by the comparison */ }
			close(fd);
		}
	}
	npend = 0;
}

int clock_gettime(clockid_t clk, struct timespec *ts)
{
	if (!virt_on)
		return (int)syscall(SYS_clock_gettime, clk, ts);
	if (npend)
		flush_pending();
	if (nids < 60)
		ids[nids++] = (clk == CLOCK_REALTIME) ? 'R' : (clk == CLOCK_MONOTONIC_COARSE) ? 'c' : (clk == CLOCK_MONOTONIC) ? 'm' : '?';
	if (clk == CLOCK_REALTIME || clk == CLOCK_REALTIME_COARSE)
		*ts = v_real;
	else
		*ts = v_mono;
	return 0;
}

static void print_err(const char *tag, clockbound_err const *e)
{
	/* detail may contain spaces: printed last, '-' when NULL */
	printf("%s err %d %d %s\n", tag, (int)e->kind, e->sys_errno, e->detail ? e->detail : "-");
}

int main(void)
{
	char line[8192];
	clockbound_ctx *ctx = NULL;
	setvbuf(stdout, NULL, _IOLBF, 0);
	while (fgets(line, sizeof line, stdin)) {
		size_t n = strlen(line);
		while (n && (line[n - 1] == '\n' || line[n - 1] == '\r'))
			line[--n] = 0;
		if (line[0] == 'T') {
			long long a, b, c, d;
			if (sscanf(line + 1, "%lld %lld %lld %lld", &a, &b, &c, &d) == 4) {
				v_real.tv_sec = a; v_real.tv_nsec = b;
				v_mono.tv_sec = c; v_mono.tv_nsec = d;
				virt_on = 1;
			}
		} else if (line[0] == 'O') {
			/* one error struct for the whole run, as a client retrying clockbound_open()
			 * in a loop would use it: never cleared between calls */
			static clockbound_err err;
			if (ctx) { clockbound_close(ctx); ctx = NULL; }
			ctx = clockbound_open(line + 2, &err);
			if (ctx) printf("O ok\n"); else print_err("O", &err);
		} else if (line[0] == 'o') {
			/* clockbound_open with err == NULL (allowed by clockbound.h) */
			if (ctx) { clockbound_close(ctx); ctx = NULL; }
			ctx = clockbound_open(line + 2, NULL);
			printf(ctx ? "O ok\n" : "O null\n");
		} else if (line[0] == 'N') {
			clockbound_now_result res;
			clockbound_err const *e;
			if (!ctx) { printf("N noctx\n"); continue; }
			memset(&res, 0x5a, sizeof res);
			nids = 0;
			e = clockbound_now(ctx, &res);
			ids[nids] = 0;
			if (e) print_err("N", e);
			else printf("N ok %lld %lld %lld %lld %d %s\n",
				(long long)res.earliest.tv_sec, (long long)res.earliest.tv_nsec,
				(long long)res.latest.tv_sec, (long long)res.latest.tv_nsec,
				(int)res.clock_status, nids ? ids : "-");
		} else if (line[0] == 'U') {
			char path[1024], hex[300];
			long off;
			if (npend < MAXPEND && sscanf(line + 1, "%1023s %ld %299s", path, &off, hex) == 3) {
				size_t k, hl = strlen(hex) / 2;
				if (hl > sizeof pend[0].data) hl = sizeof pend[0].data;
				for (k = 0; k < hl; k++) {
					unsigned int b = 0;
					sscanf(hex + 2 * k, "%2x", &b);
					pend[npend].data[k] = (unsigned char)b;
				}
				pend[npend].len = hl;
				pend[npend].off = off;
				strcpy(pend[npend].path, path);
				npend++;
			}
		} else if (line[0] == 'C') {
			if (ctx) {
				clockbound_err const *e = clockbound_close(ctx);
				ctx = NULL;
				printf(e ? "C err\n" : "C ok\n");
			} else printf("C ok\n");
		} else if (line[0] == 'S') {
			printf("S sizeof_err=%zu off_kind=%zu off_errno=%zu off_detail=%zu sizeof_res=%zu off_earliest=%zu off_latest=%zu off_status=%zu "
			       "ERR_NONE=%d ERR_SYSCALL=%d ERR_NOT_INIT=%d ERR_MALFORMED=%d ERR_CAUSALITY=%d STA_UNKNOWN=%d STA_SYNC=%d STA_FREE=%d path=%s\n",
			       sizeof(clockbound_err), offsetof(clockbound_err, kind), offsetof(clockbound_err, sys_errno), offsetof(clockbound_err, detail),
			       sizeof(clockbound_now_result), offsetof(clockbound_now_result, earliest), offsetof(clockbound_now_result, latest),
			       offsetof(clockbound_now_result, clock_status),
			       (int)CLOCKBOUND_ERR_NONE, (int)CLOCKBOUND_ERR_SYSCALL, (int)CLOCKBOUND_ERR_SEGMENT_NOT_INITIALIZED,
			       (int)CLOCKBOUND_ERR_SEGMENT_MALFORMED, (int)CLOCKBOUND_ERR_CAUSALITY_BREACH,
			       (int)CLOCKBOUND_STA_UNKNOWN, (int)CLOCKBOUND_STA_SYNCHRONIZED, (int)CLOCKBOUND_STA_FREE_RUNNING,
			       CLOCKBOUND_SHM_DEFAULT_PATH);
		} else if (line[0] == 'Q') {
			break;
		}
	}
	return 0;
}
