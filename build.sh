#!/bin/bash
# Rebuild everything the checks need from /repo's current working tree (offline).
#   build.sh harness      - the vcheck binary (release) [+ relchk profile with "harness-chk"]
#   build.sh cdriver      - libclockbound (release, from /repo) + the C driver (static and shared variants)
#   build.sh daemon       - the release clockbound binary from /repo
set -e
export CARGO_NET_OFFLINE=true
T=/verif/target
mkdir -p $T
for what in "$@"; do
case "$what" in
harness)
  (cd /verif/harness && cargo build --release -q 2>$T/harness.build.log) || { tail -40 $T/harness.build.log; exit 2; } ;;
harness-chk)
  (cd /verif/harness && cargo build --profile relchk -q 2>$T/harness-chk.build.log) || { tail -40 $T/harness-chk.build.log; exit 2; } ;;
cdriver)
  (cd /repo && cargo build -q --release --offline -p clock-bound-ffi --target-dir $T/ffi 2>$T/ffi.build.log) || { tail -40 $T/ffi.build.log; exit 2; }
  cc -O1 -Wall -I/repo/clock-bound-ffi/include /verif/cdriver/drv.c $T/ffi/release/libclockbound.a -lpthread -ldl -lm -o $T/drv_static.tmp && mv $T/drv_static.tmp $T/drv_static
  cc -O1 -Wall -rdynamic -I/repo/clock-bound-ffi/include /verif/cdriver/drv.c -L$T/ffi/release -lclockbound -Wl,-rpath,$T/ffi/release -o $T/drv_shared.tmp && mv $T/drv_shared.tmp $T/drv_shared ;;
daemon)
  (cd /repo && cargo build -q --release --offline -p clock-bound-d --target-dir $T/daemon 2>$T/daemon.build.log) || { tail -40 $T/daemon.build.log; exit 2; } ;;
esac
done
