#![no_main]
// C16: bytes -> path kind + record + raw file content -> open verdicts and repair round-trip
use libfuzzer_sys::fuzz_target;
fuzz_target!(|data: &[u8]| {
    vsim::fuzzdec::fuzz_one::<vsim::props::files::C16>(data);
});
