#![no_main]
// C14 (and the half-width/status oracles of C05/C06): bytes -> record + clock readings
use libfuzzer_sys::fuzz_target;
fuzz_target!(|data: &[u8]| {
    vsim::fuzzdec::fuzz_one::<vsim::props::client::C14>(data);
});
