#![no_main]
// C04 (includes the C02/C03 oracles): bytes -> writer lives with a stop point, reader scripts, schedule and read-choice streams
use libfuzzer_sys::fuzz_target;
fuzz_target!(|data: &[u8]| {
    vsim::fuzzdec::fuzz_one::<vsim::props::shm::C04>(data);
});
