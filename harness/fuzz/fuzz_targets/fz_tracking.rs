#![no_main]
// C07: bytes -> wire-level tracking report -> exact-arithmetic oracle on the derived bound
use libfuzzer_sys::fuzz_target;
fuzz_target!(|data: &[u8]| {
    vsim::fuzzdec::fuzz_one::<vsim::props::daemon::C07>(data);
});
