#![no_main]
// C02: bytes -> initial segment, publications, reader scripts, schedule and read-choice streams
use libfuzzer_sys::fuzz_target;
fuzz_target!(|data: &[u8]| {
    vsim::fuzzdec::fuzz_one::<vsim::props::shm::C02>(data);
});
