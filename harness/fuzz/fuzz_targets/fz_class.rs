#![no_main]
// C10: bytes -> (leap, interval, reference-time age, FSM prefix) -> classification oracle
use libfuzzer_sys::fuzz_target;
fuzz_target!(|data: &[u8]| {
    vsim::fuzzdec::fuzz_one::<vsim::props::daemon::C10>(data);
});
