use vsim::props;
use vsim::runner::main_for;

fn main() {
    let args: Vec<String> = std::env::args().collect();
    if args.len() < 2 {
        eprintln!("usage: vcheck <property-id> [--tier quick|thorough] [--replay FILE]");
        std::process::exit(2);
    }
    let rest = &args[2..];
    let code = match args[1].to_uppercase().as_str() {
        "C05" => main_for::<props::client::C05>(rest),
        "C06" => main_for::<props::client::C06>(rest),
        "C14" => main_for::<props::client::C14>(rest),
        "C01" => main_for::<props::e2e::C01>(rest),
        "C12" => main_for::<props::poller::C12>(rest),
        "C13" => main_for::<props::poller::C13>(rest),
        "C13-NS" => props::wholeproc::c13_ns_child(rest.first().map(|s| s.as_str()).unwrap_or("")),
        "C15" => main_for::<props::process::C15>(rest),
        "C15-CHILD" => props::process::c15_child(rest.first().map(|s| s.as_str()).unwrap_or("")),
        "C16" => main_for::<props::files::C16>(rest),
        "C17" => main_for::<props::files::C17>(rest),
        "C19" => main_for::<props::process::C19>(rest),
        "C02" => main_for::<props::shm::C02>(rest),
        "C02-DFS" => props::shm::dfs_child(rest),
        "C03" => main_for::<props::shm::C03>(rest),
        "C04" => main_for::<props::shm::C04>(rest),
        "C11" => main_for::<props::shm::C11>(rest),
        "C18" => main_for::<props::shm::C18>(rest),
        "C07" => main_for::<props::daemon::C07>(rest),
        "C08" => main_for::<props::daemon::C08>(rest),
        "C09" => main_for::<props::daemon::C09>(rest),
        "C10" => main_for::<props::daemon::C10>(rest),
        other => {
            eprintln!("unknown property {}", other);
            2
        }
    };
    std::process::exit(code);
}
