//! vsim: virtual clock, shared-memory world, reference models, per-property cases and checks.
pub mod cdrv;
pub mod clock;
pub mod daemon;
pub mod fuzzdec;
pub mod layout;
pub mod model;
pub mod props;
pub mod runner;
pub mod shmutil;
pub mod vmem;
