//! Handle on the persistent C driver process (cdriver/drv.c linked with libclockbound).

use crate::clock::NS;
use crate::model::{ErrKind, NowOut};
use std::io::{BufRead, BufReader, Write};
use std::process::{Child, ChildStdin, ChildStdout, Command, Stdio};

pub struct CDriver {
    child: Child,
    stdin: ChildStdin,
    stdout: BufReader<ChildStdout>,
    pub last_ids: String,
    /// the driver did not answer within 10 s and was killed (the library call never returned)
    pub hung: bool,
}

fn kind_from_c(k: i32) -> ErrKind {
    // enumerator values as printed by the driver from clockbound.h
    match k {
        1 => ErrKind::Syscall,
        2 => ErrKind::NotInitialized,
        3 => ErrKind::Malformed,
        _ => ErrKind::Causality,
    }
}

impl CDriver {
    pub fn spawn(variant: &str) -> std::io::Result<CDriver> {
        let exe = format!("/verif/target/drv_{}", variant);
        let mut child = Command::new(exe).stdin(Stdio::piped()).stdout(Stdio::piped()).spawn()?;
        let stdin = child.stdin.take().unwrap();
        let stdout = BufReader::new(child.stdout.take().unwrap());
        Ok(CDriver {
            child,
            stdin,
            stdout,
            last_ids: String::new(),
            hung: false,
        })
    }
    fn line(&mut self) -> String {
        // a library call that never returns must not hang the harness: wait at most 10 s of real
        // time for the answer, then kill the driver (a new one is started for the next case)
        if self.stdout.buffer().is_empty() {
            use std::os::unix::io::AsRawFd;
            let mut pfd = libc::pollfd {
                fd: self.stdout.get_ref().as_raw_fd(),
                events: libc::POLLIN,
                revents: 0,
            };
            let n = unsafe { libc::poll(&mut pfd, 1, 10_000) };
            if n == 0 {
                self.hung = true;
                let _ = self.child.kill();
                let _ = self.child.wait();
                return String::new();
            }
        }
        let mut s = String::new();
        let _ = self.stdout.read_line(&mut s);
        s.trim_end().to_string()
    }
    pub fn set_time(&mut self, real_ns: i128, mono_ns: i128) {
        let _ = writeln!(
            self.stdin,
            "T {} {} {} {}",
            real_ns.div_euclid(NS),
            real_ns.rem_euclid(NS),
            mono_ns.div_euclid(NS),
            mono_ns.rem_euclid(NS)
        );
    }
    fn parse_err(rest: &str) -> NowOut {
        let mut it = rest.splitn(3, ' ');
        let kind: i32 = it.next().unwrap_or("0").parse().unwrap_or(0);
        let errno: i32 = it.next().unwrap_or("0").parse().unwrap_or(0);
        let detail = it.next().unwrap_or("-");
        NowOut::Err {
            kind: kind_from_c(kind),
            errno,
            detail: if detail == "-" { String::new() } else { detail.to_string() },
        }
    }
    /// clockbound_open; Ok(()) or the error as reported to C.
    pub fn open(&mut self, path: &str) -> Result<(), NowOut> {
        // The driver keeps one clockbound_err for all its calls, like a client retrying in a loop.
        // Every open is preceded by a failing open of a missing file, so that the struct holds
        // {SYSCALL, ENOENT, "open"} beforehand: whatever the library leaves untouched shows up,
        // and a case does not depend on the cases that ran before it.
        let _ = writeln!(self.stdin, "O /nonexistent-clockbound-verif/prime");
        let _ = self.stdin.flush();
        let _ = self.line();
        let _ = writeln!(self.stdin, "O {}", path);
        let _ = self.stdin.flush();
        let l = self.line();
        if l == "O ok" {
            Ok(())
        } else if let Some(rest) = l.strip_prefix("O err ") {
            Err(Self::parse_err(rest))
        } else {
            Err(NowOut::Err {
                kind: ErrKind::Syscall,
                errno: -1,
                detail: format!("driver protocol error: {:?}", l),
            })
        }
    }
    /// clockbound_open(path, NULL): Some(true) a context was returned, Some(false) NULL was returned,
    /// None the driver did not answer (it died or hung).
    pub fn open_without_err(&mut self, path: &str) -> Option<bool> {
        let _ = writeln!(self.stdin, "o {}", path);
        let _ = self.stdin.flush();
        match self.line().as_str() {
            "O ok" => Some(true),
            "O null" => Some(false),
            _ => None,
        }
    }
    pub fn now(&mut self) -> NowOut {
        let _ = writeln!(self.stdin, "N");
        let _ = self.stdin.flush();
        let l = self.line();
        if let Some(rest) = l.strip_prefix("N ok ") {
            let f: Vec<&str> = rest.split(' ').collect();
            let p = |i: usize| f.get(i).and_then(|s| s.parse::<i128>().ok()).unwrap_or(i128::MIN);
            self.last_ids = f.get(5).unwrap_or(&"").to_string();
            NowOut::Ok {
                earliest_ns: p(0) * NS + p(1),
                latest_ns: p(2) * NS + p(3),
                status: p(4) as i32,
            }
        } else if let Some(rest) = l.strip_prefix("N err ") {
            Self::parse_err(rest)
        } else {
            NowOut::Err {
                kind: ErrKind::Syscall,
                errno: -1,
                detail: format!("driver protocol error: {:?}", l),
            }
        }
    }
    /// Queue a write to the segment file that the driver performs at the next clock read made by
    /// the library (i.e. while the client is inside clockbound_now).
    pub fn queue_update(&mut self, path: &str, offset: usize, bytes: &[u8]) {
        let hex: String = bytes.iter().map(|b| format!("{:02x}", b)).collect();
        let _ = writeln!(self.stdin, "U {} {} {}", path, offset, hex);
    }
    pub fn close(&mut self) -> bool {
        let _ = writeln!(self.stdin, "C");
        let _ = self.stdin.flush();
        self.line() == "C ok"
    }
    pub fn abi(&mut self) -> String {
        let _ = writeln!(self.stdin, "S");
        let _ = self.stdin.flush();
        self.line()
    }
    pub fn alive(&mut self) -> bool {
        matches!(self.child.try_wait(), Ok(None))
    }
}

impl Drop for CDriver {
    fn drop(&mut self) {
        let _ = writeln!(self.stdin, "Q");
        let _ = self.stdin.flush();
        let _ = self.child.wait();
    }
}
