//! (M1) Virtual time by symbol interposition.
//!
//! This crate defines `clock_gettime`. Because libc, nix and Rust's std all resolve that symbol at
//! link time, the definition in the executable wins: `Instant::now()`, `SystemTime::now()`,
//! `clock_gettime_safe()` and therefore `ClockErrorBound::now()` / `ClockBoundClient::now()` read
//! the virtual clock of the calling thread when one is installed, and the real clock otherwise.

use std::cell::RefCell;
use std::rc::Rc;

pub const NS: i128 = 1_000_000_000;

/// One logged clock read.
#[derive(Debug, Clone, Copy, PartialEq, Eq)]
pub struct ClockRead {
    /// libc clock id that was asked for.
    pub clock_id: i32,
    /// Value returned, in ns.
    pub value_ns: i128,
    /// Virtual monotonic instant at which the read was answered, in ns.
    pub mono_ns: i128,
}

/// State of one virtual clock ("world time").
#[derive(Debug, Default)]
pub struct VClockState {
    /// Virtual monotonic time in ns (CLOCK_MONOTONIC, _COARSE, _RAW, BOOTTIME all read this).
    pub mono_ns: i128,
    /// CLOCK_REALTIME = mono_ns + real_offset_ns.
    pub real_offset_ns: i128,
    /// If non-zero: CLOCK_REALTIME_COARSE returns the realtime value of the last kernel tick
    /// (ticks every so many ns of monotonic time), as the kernel's coarse clocks do.
    pub realtime_coarse_tick_ns: i128,
    /// Delays (ns) applied *before* answering successive reads; consumed front to back.
    pub pre_read_delays: std::collections::VecDeque<i128>,
    /// Log of every read.
    pub log: Vec<ClockRead>,
    /// Whether reads are logged.
    pub logging: bool,
    /// Marks inserted into the log stream by the harness: (log position, tag).
    pub marks: Vec<(usize, &'static str)>,
}

#[derive(Clone, Default)]
pub struct VClock(pub Rc<RefCell<VClockState>>);

thread_local! {
    static CURRENT: RefCell<Option<VClock>> = const { RefCell::new(None) };
    static ON_READ: RefCell<Option<ReadCallback>> = const { RefCell::new(None) };
}

/// Called at the start of every virtual clock read, before the value is computed: lets a harness
/// script time (and anything else) from inside code it cannot interleave with otherwise.
pub type ReadCallback = Box<dyn FnMut(libc::clockid_t, &mut VClockState)>;

pub fn set_on_read(cb: Option<ReadCallback>) {
    ON_READ.with(|c| *c.borrow_mut() = cb);
}

impl VClock {
    pub fn new(mono_ns: i128, real_ns: i128) -> VClock {
        VClock(Rc::new(RefCell::new(VClockState {
            mono_ns,
            real_offset_ns: real_ns - mono_ns,
            logging: true,
            ..Default::default()
        })))
    }
    /// Install this clock for the calling thread; returns a guard that removes it.
    pub fn install(&self) -> ClockGuard {
        let prev = CURRENT.with(|c| c.borrow_mut().replace(self.clone()));
        ClockGuard(prev)
    }
    pub fn set_realtime_coarse_tick(&self, tick_ns: i128) {
        self.0.borrow_mut().realtime_coarse_tick_ns = tick_ns;
    }
    pub fn set(&self, mono_ns: i128, real_ns: i128) {
        let mut s = self.0.borrow_mut();
        s.mono_ns = mono_ns;
        s.real_offset_ns = real_ns - mono_ns;
    }
    pub fn set_mono_keep_offset(&self, mono_ns: i128) {
        self.0.borrow_mut().mono_ns = mono_ns;
    }
    pub fn advance(&self, d_ns: i128) {
        self.0.borrow_mut().mono_ns += d_ns;
    }
    pub fn mono(&self) -> i128 {
        self.0.borrow().mono_ns
    }
    pub fn real(&self) -> i128 {
        let s = self.0.borrow();
        s.mono_ns + s.real_offset_ns
    }
    pub fn push_delays(&self, d: &[i128]) {
        self.0.borrow_mut().pre_read_delays.extend(d.iter().copied());
    }
    pub fn clear_delays(&self) {
        self.0.borrow_mut().pre_read_delays.clear();
    }
    pub fn take_log(&self) -> Vec<ClockRead> {
        let mut s = self.0.borrow_mut();
        s.marks.clear();
        std::mem::take(&mut s.log)
    }
    pub fn log_len(&self) -> usize {
        self.0.borrow().log.len()
    }
    pub fn mark(&self, tag: &'static str) {
        let mut s = self.0.borrow_mut();
        let n = s.log.len();
        s.marks.push((n, tag));
    }
    pub fn marks(&self) -> Vec<(usize, &'static str)> {
        self.0.borrow().marks.clone()
    }
}

pub struct ClockGuard(Option<VClock>);
impl Drop for ClockGuard {
    fn drop(&mut self) {
        let prev = self.0.take();
        CURRENT.with(|c| *c.borrow_mut() = prev);
    }
}

pub fn ns_to_timespec(ns: i128) -> libc::timespec {
    libc::timespec {
        tv_sec: ns.div_euclid(NS) as i64,
        tv_nsec: ns.rem_euclid(NS) as i64,
    }
}

pub fn timespec_to_ns(ts: &libc::timespec) -> i128 {
    ts.tv_sec as i128 * NS + ts.tv_nsec as i128
}

pub fn is_realtime(id: libc::clockid_t) -> bool {
    id == libc::CLOCK_REALTIME || id == libc::CLOCK_REALTIME_COARSE || id == libc::CLOCK_TAI
}

/// The interposed symbol.
///
/// # Safety
/// Same contract as clock_gettime(2).
#[no_mangle]
pub unsafe extern "C" fn clock_gettime(clk: libc::clockid_t, ts: *mut libc::timespec) -> libc::c_int {
    // try_with: a thread that is being torn down has no virtual clock.
    let virt = CURRENT
        .try_with(|c| match c.try_borrow() {
            Ok(g) => g.as_ref().cloned(),
            Err(_) => None,
        })
        .ok()
        .flatten();
    match virt {
        Some(vc) => {
            let mut s = vc.0.borrow_mut();
            let cb = ON_READ.try_with(|c| c.try_borrow_mut().ok().and_then(|mut g| g.take())).ok().flatten();
            if let Some(mut cb) = cb {
                cb(clk, &mut s);
                let _ = ON_READ.try_with(|c| {
                    if let Ok(mut g) = c.try_borrow_mut() {
                        if g.is_none() {
                            *g = Some(cb);
                        }
                    }
                });
            }
            if let Some(d) = s.pre_read_delays.pop_front() {
                s.mono_ns += d;
            }
            let v = if clk == libc::CLOCK_REALTIME_COARSE && s.realtime_coarse_tick_ns > 0 {
                s.mono_ns.div_euclid(s.realtime_coarse_tick_ns) * s.realtime_coarse_tick_ns + s.real_offset_ns
            } else if is_realtime(clk) {
                s.mono_ns + s.real_offset_ns
            } else {
                s.mono_ns
            };
            if s.logging {
                let m = s.mono_ns;
                s.log.push(ClockRead {
                    clock_id: clk,
                    value_ns: v,
                    mono_ns: m,
                });
            }
            *ts = ns_to_timespec(v);
            0
        }
        None => libc::syscall(libc::SYS_clock_gettime, clk as libc::c_long, ts) as libc::c_int,
    }
}

/// Real monotonic time in seconds (bypasses the virtual clock). For wall_s in evidence only.
pub fn real_mono_s() -> f64 {
    let mut ts = libc::timespec {
        tv_sec: 0,
        tv_nsec: 0,
    };
    unsafe {
        libc::syscall(
            libc::SYS_clock_gettime,
            libc::CLOCK_MONOTONIC as libc::c_long,
            &mut ts as *mut libc::timespec,
        );
    }
    ts.tv_sec as f64 + ts.tv_nsec as f64 * 1e-9
}

/// The virtual clock installed for the calling thread, if any.
pub fn current() -> Option<VClock> {
    CURRENT.with(|c| c.borrow().as_ref().cloned())
}
