//! (M2) A harness-owned shared-memory world behind the `verif` hooks of clock-bound-shm.
//!
//! * Every shared access (atomic load/store, fence, one 8-byte word of the record, one named stop
//!   point between file operations) is a scheduling point: world threads are stackful coroutines
//!   on one OS thread; the controller picks who runs next from the case's choice stream, so an
//!   execution is a pure function of the case.
//! * Memory is an operational release/acquire model ("view machine"): per location an append-only
//!   list of messages, each carrying the view released with it; per thread a current view, an
//!   acquire-pending view (joined by an acquire fence) and a release view (set by a release fence,
//!   attached to relaxed stores). A load may return any message at or above the thread's view of
//!   the location; which one is chosen by the case. Choice 0 = newest = sequential consistency.
//! * Crash = the controller drops a suspended coroutine (its stack unwinds: munmap/close only).
//! * Stores also go to the real mapping, so the backing file always holds the newest values and the
//!   real file operations of `ShmWriter::new`/`wipe` and `ShmHeader::read` compose with the model;
//!   at every stop point the world re-synchronises its newest messages with the file content.

use clock_bound_shm::verif::Hooks;
use corosensei::{Coroutine, CoroutineResult, Yielder};
use std::cell::RefCell;
use std::path::PathBuf;
use std::rc::Rc;
use std::sync::atomic::{AtomicU16, AtomicU32, Ordering};

pub const NLOC: usize = 9; // version, generation, 7 record words
pub const LOC_VERSION: usize = 0;
pub const LOC_GEN: usize = 1;
pub const LOC_DATA0: usize = 2;
pub type View = [u32; NLOC];

fn join(a: &mut View, b: &View) {
    for i in 0..NLOC {
        if b[i] > a[i] {
            a[i] = b[i];
        }
    }
}

/// Where a value came from.
#[derive(Clone, Copy, Debug, PartialEq, Eq, Hash)]
pub enum Prov {
    /// content of the file when the world first looked at it
    Init,
    /// written by a file operation (wipe / create)
    FileOp,
    /// written by publication number n (global across writer lives)
    Pub(u32),
    /// written by the writer outside a publication (e.g. the version store of `new`)
    Writer,
}

#[derive(Clone, Debug)]
pub struct Msg {
    pub val: u64,
    pub view: View,
    pub prov: Prov,
}

/// What a thread is about to do (yielded to the controller before the operation happens).
#[derive(Clone, Copy, Debug, PartialEq, Eq)]
pub enum Pending {
    Load(usize),
    Store(usize),
    Fence,
    Stop(&'static str),
    /// harness-level marker: the writer is between publications
    Idle,
    /// harness-level marker: a reader is about to start (kind given) / has finished an API call
    CallStart(u8),
    CallEnd,
    /// a reader waits until that many publications have completed
    Wait(u32),
}

#[derive(Default, Clone, Debug)]
pub struct CallStats {
    pub loads: u64,
    pub data_reads: u64,
    pub first_version: Option<u64>,
    pub first_generation: Option<u64>,
    pub last_generation: Option<u64>,
    /// per generation value loaded in this call: (value, lowest message index, highest message index)
    pub gen_seen: Vec<(u64, u32, u32)>,
    /// provenance of the seven words of the most recent record copy in this call
    pub last_copy: Option<[Prov; 7]>,
    /// number of stale (non-newest) values returned to loads in this call
    pub stale_reads: u64,
    /// writer accesses that happened between this call's first and last access
    pub overlapped_writer_ops: u64,
    pub first_new_word: Option<usize>,
}

pub struct ThreadState {
    pub cur: View,
    pub acq: View,
    pub rel: View,
    pub cur_pub: Option<u32>,
    pub sched_points: u64,
    pub free_run: bool,
    pub call: CallStats,
    pub call_writer_ops_at_start: u64,
    pub accesses_total: u64,
    pub is_writer: bool,
    pub last_pending_name: Option<&'static str>,
    /// the thread must yield (so that the controller can kill it) before its n-th scheduling point
    pub stop_at: Option<u64>,
}

impl ThreadState {
    fn new(view: View, is_writer: bool) -> ThreadState {
        ThreadState {
            cur: view,
            acq: view,
            rel: view,
            cur_pub: None,
            sched_points: 0,
            free_run: false,
            call: CallStats::default(),
            call_writer_ops_at_start: 0,
            accesses_total: 0,
            is_writer,
            last_pending_name: None,
            stop_at: None,
        }
    }
}

pub struct WorldState {
    pub path: PathBuf,
    pub locs: Vec<Vec<Msg>>,
    pub initialised: bool,
    pub file_len: usize,
    pub mappings: Vec<(usize, usize)>,
    pub threads: Vec<ThreadState>,
    pub read_choices: Vec<u16>,
    pub read_pos: usize,
    /// bias: when true, loads of the generation prefer stale values and loads of data prefer fresh
    pub tearing_down: bool,
    pub sigbus: Option<String>,
    pub writer_ops: u64,
    pub access_budget: u64,
    pub budget_exceeded: bool,
    /// number of runnable threads, maintained by the controller (for the free-run decision)
    pub runnable: usize,
    /// publications: (started, completed)
    pub pubs_started: u32,
    pub pubs_completed: Vec<u32>,
    pub trace: Vec<(usize, Pending, u64)>,
    pub trace_on: bool,
    /// generation values seen by a third-party observer at each data-word store (C11)
    pub gen_probe: Vec<u16>,
    pub probe_on: bool,
    /// systematic exploration: decisions come from an explicit script of indices and every
    /// decision point (kind 0 = scheduler, 1 = load) is recorded with its arity
    pub dfs: Option<Dfs>,
    /// harness markers (idle / call start / call end) are scheduling points
    pub markers_yield: bool,
}

#[derive(Default, Clone, Debug)]
pub struct Dfs {
    pub script: Vec<u8>,
    pub pos: usize,
    /// (kind, arity, chosen, costly): kind 0 = scheduler, 1 = load; a non-zero choice at a costly
    /// point counts against the exploration bounds (a pre-emption / a stale load)
    pub decisions: Vec<(u8, u8, u8, bool)>,
}

impl Dfs {
    pub fn choose(&mut self, kind: u8, arity: usize, costly: bool) -> usize {
        if arity <= 1 {
            return 0;
        }
        let a = arity.min(255);
        let c = (self.script.get(self.pos).copied().unwrap_or(0) as usize) % a;
        self.pos += 1;
        self.decisions.push((kind, a as u8, c as u8, costly));
        c
    }
}

pub struct World(pub RefCell<WorldState>);

struct CurCtx {
    world: Rc<World>,
    tid: usize,
    yielder: *const Yielder<(), Pending>,
}

thread_local! {
    static CUR: RefCell<Option<CurCtx>> = const { RefCell::new(None) };
}

fn with_ctx<R>(f: impl FnOnce(&Rc<World>, usize, *const Yielder<(), Pending>) -> R) -> Option<R> {
    // the borrow must not be held while f runs: f may suspend the coroutine
    let ctx = CUR.with(|c| c.borrow().as_ref().map(|ctx| (ctx.world.clone(), ctx.tid, ctx.yielder)));
    ctx.map(|(w, tid, y)| f(&w, tid, y))
}

impl World {
    pub fn new(path: PathBuf, read_choices: Vec<u16>) -> Rc<World> {
        Rc::new(World(RefCell::new(WorldState {
            path,
            locs: vec![vec![]; NLOC],
            initialised: false,
            file_len: 0,
            mappings: vec![],
            threads: vec![],
            read_choices,
            read_pos: 0,
            tearing_down: false,
            sigbus: None,
            writer_ops: 0,
            access_budget: u64::MAX,
            budget_exceeded: false,
            runnable: 0,
            pubs_started: 0,
            pubs_completed: vec![],
            trace: vec![],
            trace_on: false,
            gen_probe: vec![],
            probe_on: false,
            dfs: None,
            markers_yield: true,
        })))
    }

    fn newest_view(s: &WorldState) -> View {
        let mut v = [0u32; NLOC];
        for i in 0..NLOC {
            v[i] = s.locs[i].len().saturating_sub(1) as u32;
        }
        v
    }

    /// Bring the model in line with the file: initial content, or the effect of file operations.
    pub fn sync_with_file(&self, tid: Option<usize>) {
        let mut s = self.0.borrow_mut();
        let bytes = match std::fs::read(&s.path) {
            Ok(b) => b,
            Err(e) if e.kind() == std::io::ErrorKind::NotFound => vec![],
            // anything else (EMFILE, EIO ...) is a problem of the harness, not a property of the code
            Err(e) => panic!("HARNESS: cannot read the segment file {}: {}", s.path.display(), e),
        };
        s.file_len = bytes.len();
        let mut padded = bytes.clone();
        padded.resize(72, 0);
        let vals: [u64; NLOC] = {
            let mut v = [0u64; NLOC];
            v[LOC_VERSION] = u16::from_ne_bytes([padded[12], padded[13]]) as u64;
            v[LOC_GEN] = u16::from_ne_bytes([padded[14], padded[15]]) as u64;
            for k in 0..7 {
                v[LOC_DATA0 + k] = u64::from_ne_bytes(padded[16 + 8 * k..24 + 8 * k].try_into().unwrap());
            }
            v
        };
        if !s.initialised {
            for i in 0..NLOC {
                s.locs[i].push(Msg {
                    val: vals[i],
                    view: [0; NLOC],
                    prov: Prov::Init,
                });
            }
            s.initialised = true;
            return;
        }
        // file operations are strongly ordered: the new messages carry the newest view
        let mut changed = vec![];
        for i in 0..NLOC {
            // bytes beyond the end of the file live only in the page cache of the mappings: the
            // file tells nothing about them
            let end = match i {
                LOC_VERSION => 14,
                LOC_GEN => 16,
                k => 16 + 8 * (k - LOC_DATA0) + 8,
            };
            if end > bytes.len() {
                continue;
            }
            if s.locs[i].last().map(|m| m.val) != Some(vals[i]) {
                changed.push(i);
            }
        }
        if changed.is_empty() {
            return;
        }
        let mut view = Self::newest_view(&s);
        for &i in &changed {
            view[i] += 1;
        }
        for &i in &changed {
            s.locs[i].push(Msg {
                val: vals[i],
                view,
                prov: Prov::FileOp,
            });
        }
        if let Some(t) = tid {
            let nv = Self::newest_view(&s);
            let th = &mut s.threads[t];
            th.cur = nv;
            th.acq = nv;
            th.rel = nv;
        }
    }

    pub fn add_thread(&self, is_writer: bool) -> usize {
        let mut s = self.0.borrow_mut();
        let v = Self::newest_view(&s);
        s.threads.push(ThreadState::new(v, is_writer));
        s.threads.len() - 1
    }

    /// "Time has passed": the thread sees everything published so far.
    pub fn raise_view(&self, tid: usize) {
        let mut s = self.0.borrow_mut();
        let v = Self::newest_view(&s);
        let th = &mut s.threads[tid];
        th.cur = v;
        th.acq = v;
        th.rel = v;
    }

    fn locate(s: &WorldState, addr: usize, size: usize) -> Option<(usize, usize)> {
        for (base, len) in &s.mappings {
            if addr >= *base && addr + size <= *base + *len {
                return Some((addr - *base, *base));
            }
        }
        None
    }

    fn offset_to_loc(off: usize) -> Option<usize> {
        match off {
            12 => Some(LOC_VERSION),
            14 => Some(LOC_GEN),
            o if (16..72).contains(&o) && (o - 16) % 8 == 0 => Some(LOC_DATA0 + (o - 16) / 8),
            _ => None,
        }
    }

    fn next_read_choice(s: &mut WorldState) -> u16 {
        let c = s.read_choices.get(s.read_pos).copied().unwrap_or(0);
        s.read_pos += 1;
        c
    }

    fn do_load(&self, tid: usize, loc: usize, ord: Ordering, width: usize, off: usize) -> u64 {
        let mut s = self.0.borrow_mut();
        if off + width > (s.file_len + 4095) / 4096 * 4096 && s.sigbus.is_none() {
            s.sigbus = Some(format!("load of {} bytes at offset {} of a mapping whose file is {} bytes long: beyond the last page of the file (SIGBUS)", width, off, s.file_len));
        }
        let lo = s.threads[tid].cur[loc] as usize;
        let len = s.locs[loc].len();
        let span = len - lo;
        let back = match s.dfs.as_mut() {
            Some(d) => d.choose(1, span, true),
            None => {
                let c = if span > 1 { Self::next_read_choice(&mut s) } else { 0 };
                crate::runner::pick(c, span)
            }
        };
        let idx = len - 1 - back;
        let msg = s.locs[loc][idx].clone();
        let is_writer = s.threads[tid].is_writer;
        let wops = s.writer_ops;
        let th = &mut s.threads[tid];
        th.cur[loc] = idx as u32;
        match ord {
            Ordering::Acquire | Ordering::AcqRel | Ordering::SeqCst => {
                join(&mut th.cur, &msg.view);
            }
            _ => {
                join(&mut th.acq, &msg.view);
            }
        }
        let cur = th.cur;
        join(&mut th.acq, &cur);
        th.call.loads += 1;
        th.accesses_total += 1;
        if back > 0 {
            th.call.stale_reads += 1;
        }
        if loc == LOC_VERSION && th.call.first_version.is_none() {
            th.call.first_version = Some(msg.val);
        }
        if loc == LOC_GEN {
            if th.call.first_generation.is_none() {
                th.call.first_generation = Some(msg.val);
            }
            th.call.last_generation = Some(msg.val);
            let m = idx as u32;
            match th.call.gen_seen.iter_mut().find(|e| e.0 == msg.val) {
                Some(e) => {
                    e.1 = e.1.min(m);
                    e.2 = e.2.max(m);
                }
                None => {
                    if th.call.gen_seen.len() < 64 {
                        th.call.gen_seen.push((msg.val, m, m));
                    }
                }
            }
        }
        if !is_writer {
            th.call.overlapped_writer_ops = wops - th.call_writer_ops_at_start;
        }
        if is_writer {
            s.writer_ops += 1;
        }
        msg.val
    }

    fn do_store(&self, tid: usize, loc: usize, val: u64, ord: Ordering, width: usize, off: usize) {
        let mut s = self.0.borrow_mut();
        if off + width > (s.file_len + 4095) / 4096 * 4096 && s.sigbus.is_none() {
            s.sigbus = Some(format!("store of {} bytes at offset {} of a mapping whose file is {} bytes long: beyond the last page of the file (SIGBUS)", width, off, s.file_len));
        }
        let idx = s.locs[loc].len() as u32;
        let th = &mut s.threads[tid];
        th.cur[loc] = idx;
        let view = match ord {
            Ordering::Release | Ordering::AcqRel | Ordering::SeqCst => th.cur,
            _ => {
                // a relaxed store carries the view of the last release fence (plus itself)
                let mut v = th.rel;
                v[loc] = idx;
                v
            }
        };
        let cur = th.cur;
        join(&mut th.acq, &cur);
        th.accesses_total += 1;
        let prov = match th.cur_pub {
            Some(p) => Prov::Pub(p),
            None => Prov::Writer,
        };
        s.locs[loc].push(Msg { val, view, prov });
        s.writer_ops += 1;
    }

    fn do_fence(&self, tid: usize, ord: Ordering) {
        let mut s = self.0.borrow_mut();
        let th = &mut s.threads[tid];
        match ord {
            Ordering::Acquire => {
                let a = th.acq;
                join(&mut th.cur, &a);
            }
            Ordering::Release => {
                th.rel = th.cur;
            }
            Ordering::AcqRel | Ordering::SeqCst => {
                let a = th.acq;
                join(&mut th.cur, &a);
                th.rel = th.cur;
            }
            _ => {}
        }
        th.accesses_total += 1;
    }

    /// Scheduling point: suspend the calling coroutine unless it is free-running.
    fn sched_point(self: &Rc<World>, tid: usize, yielder: *const Yielder<(), Pending>, p: Pending) {
        let must_yield = {
            let mut s = self.0.borrow_mut();
            if s.tearing_down {
                return;
            }
            let runnable = s.runnable;
            let s_markers_yield = s.markers_yield;
            let th = &mut s.threads[tid];
            let at_stop = th.stop_at == Some(th.sched_points);
            th.sched_points += 1;
            if let Pending::Stop(n) = p {
                th.last_pending_name = Some(n);
            }
            let is_marker = matches!(p, Pending::Wait(_) | Pending::Idle | Pending::CallStart(_) | Pending::CallEnd);
            let markers_yield = s_markers_yield;
            let y = !(th.free_run || runnable <= 1 && !is_marker) && !(is_marker && !markers_yield);
            // the budget bounds the work of client threads; a writer may publish as much as it likes
            let total = if th.is_writer { 0 } else { th.accesses_total };
            if total > s.access_budget {
                s.budget_exceeded = true;
            }
            if s.trace_on {
                let sp = s.threads[tid].sched_points;
                s.trace.push((tid, p, sp));
            }
            y || at_stop || s.budget_exceeded
        };
        if must_yield {
            // SAFETY: the yielder outlives the coroutine body, which is the only caller.
            unsafe { (*yielder).suspend(p) };
        }
    }
}

/// The process-wide hook object; forwards to the world of the calling coroutine, if any.
pub struct VmemHooks;

impl Hooks for VmemHooks {
    fn load_u16(&self, a: &AtomicU16, o: Ordering) -> u16 {
        let addr = a as *const AtomicU16 as usize;
        let r = with_ctx(|w, tid, y| {
            let loc = {
                let s = w.0.borrow();
                if s.tearing_down {
                    None
                } else {
                    World::locate(&s, addr, 2).and_then(|(off, _)| World::offset_to_loc(off).map(|l| (l, off)))
                }
            };
            loc.map(|(l, off)| {
                w.sched_point(tid, y, Pending::Load(l));
                w.do_load(tid, l, o, 2, off) as u16
            })
        });
        match r.flatten() {
            Some(v) => v,
            None => a.load(o),
        }
    }
    fn store_u16(&self, a: &AtomicU16, v: u16, o: Ordering) {
        let addr = a as *const AtomicU16 as usize;
        let done = with_ctx(|w, tid, y| {
            let loc = {
                let s = w.0.borrow();
                if s.tearing_down {
                    None
                } else {
                    World::locate(&s, addr, 2).and_then(|(off, _)| World::offset_to_loc(off).map(|l| (l, off)))
                }
            };
            loc.map(|(l, off)| {
                w.sched_point(tid, y, Pending::Store(l));
                w.do_store(tid, l, v as u64, o, 2, off);
            })
        });
        let _ = done;
        // the real mapping always receives the store (newest value = file content)
        a.store(v, o);
    }
    fn load_u32(&self, a: &AtomicU32, o: Ordering) -> u32 {
        a.load(o)
    }
    fn store_u32(&self, a: &AtomicU32, v: u32, o: Ordering) {
        a.store(v, o)
    }
    fn fence(&self, o: Ordering) {
        let r = with_ctx(|w, tid, y| {
            if w.0.borrow().tearing_down {
                return;
            }
            w.sched_point(tid, y, Pending::Fence);
            w.do_fence(tid, o);
        });
        if r.is_none() {
            std::sync::atomic::fence(o);
        }
    }
    unsafe fn data_read(&self, src: *const u8, dst: *mut u8, len: usize) {
        let addr = src as usize;
        let handled = with_ctx(|w, tid, y| {
            let base = {
                let s = w.0.borrow();
                if s.tearing_down {
                    None
                } else {
                    World::locate(&s, addr, len).map(|(off, _)| off)
                }
            };
            let Some(off0) = base else { return false };
            let mut provs = [Prov::Init; 7];
            let words = len / 8;
            for k in 0..words {
                let off = off0 + 8 * k;
                let Some(loc) = World::offset_to_loc(off) else { return false };
                w.sched_point(tid, y, Pending::Load(loc));
                let v = w.do_load(tid, loc, Ordering::Relaxed, 8, off);
                std::ptr::copy_nonoverlapping(v.to_ne_bytes().as_ptr(), dst.add(8 * k), 8);
                let s = w.0.borrow();
                let idx = s.threads[tid].cur[loc] as usize;
                if k < 7 {
                    provs[k] = s.locs[loc][idx].prov;
                }
            }
            let mut s = w.0.borrow_mut();
            let th = &mut s.threads[tid];
            th.call.data_reads += 1;
            if th.call.first_new_word.is_none() {
                // first word whose provenance differs from word 0's (a torn copy), if any
                th.call.first_new_word = (1..7).find(|k| provs[*k] != provs[0]);
            }
            th.call.last_copy = Some(provs);
            true
        });
        if handled != Some(true) {
            std::ptr::copy_nonoverlapping(src, dst, len);
        }
    }
    unsafe fn data_write(&self, dst: *mut u8, src: *const u8, len: usize) {
        let addr = dst as usize;
        let handled = with_ctx(|w, tid, y| {
            let base = {
                let s = w.0.borrow();
                if s.tearing_down {
                    None
                } else {
                    World::locate(&s, addr, len).map(|(off, _)| off)
                }
            };
            let Some(off0) = base else { return false };
            let words = len / 8;
            for k in 0..words {
                let off = off0 + 8 * k;
                let Some(loc) = World::offset_to_loc(off) else { return false };
                w.sched_point(tid, y, Pending::Store(loc));
                let mut b = [0u8; 8];
                std::ptr::copy_nonoverlapping(src.add(8 * k), b.as_mut_ptr(), 8);
                w.do_store(tid, loc, u64::from_ne_bytes(b), Ordering::Relaxed, 8, off);
                std::ptr::copy_nonoverlapping(b.as_ptr(), dst.add(8 * k), 8);
                let mut s = w.0.borrow_mut();
                if s.probe_on {
                    // third-party observer: generation bytes of the mapped file right now
                    let g = std::ptr::read_volatile((dst as usize - off0 + 14) as *const u16);
                    s.gen_probe.push(g);
                }
            }
            true
        });
        if handled != Some(true) {
            std::ptr::copy_nonoverlapping(src, dst, len);
        }
    }
    fn map(&self, addr: *mut u8, len: usize, _writable: bool) {
        with_ctx(|w, tid, _| {
            let first = !w.0.borrow().initialised;
            if first {
                w.sync_with_file(None);
            }
            let mut s = w.0.borrow_mut();
            s.mappings.push((addr as usize, len));
            // mmap is a system call: the thread sees everything written so far
            let v = World::newest_view(&s);
            let th = &mut s.threads[tid];
            th.cur = v;
            th.acq = v;
            th.rel = v;
        });
    }
    fn unmap(&self, addr: *mut u8, len: usize) {
        with_ctx(|w, _, _| {
            let mut s = w.0.borrow_mut();
            if let Some(i) = s.mappings.iter().position(|m| *m == (addr as usize, len)) {
                s.mappings.swap_remove(i);
            }
        });
    }
    fn stop_point(&self, name: &'static str) {
        with_ctx(|w, tid, y| {
            if w.0.borrow().tearing_down {
                return;
            }
            // the file operation before this point has happened: reflect it in the model
            w.sync_with_file(Some(tid));
            w.sched_point(tid, y, Pending::Stop(name));
        });
    }
}

static HOOKS: VmemHooks = VmemHooks;

pub fn install_hooks() {
    let _ = clock_bound_shm::verif::install(&HOOKS);
}

/// Harness-level scheduling point from inside a coroutine body.
pub fn marker(p: Pending) {
    with_ctx(|w, tid, y| w.sched_point(tid, y, p));
}

pub fn with_thread<R>(f: impl FnOnce(&mut ThreadState) -> R) -> Option<R> {
    with_ctx(|w, tid, _| {
        let mut s = w.0.borrow_mut();
        f(&mut s.threads[tid])
    })
}

pub fn with_world<R>(f: impl FnOnce(&mut WorldState, usize) -> R) -> Option<R> {
    with_ctx(|w, tid, _| {
        let mut s = w.0.borrow_mut();
        f(&mut s, tid)
    })
}

// ------------------------------------------------------------------------------------------------
// controller

pub type Body = Box<dyn FnOnce()>;
type YCell = Rc<std::cell::Cell<*const Yielder<(), Pending>>>;

pub struct VThread {
    pub tid: usize,
    co: Option<Coroutine<(), Pending, ()>>,
    ycell: YCell,
    pub pending: Option<Pending>,
    pub done: bool,
    pub crashed: bool,
}

pub struct Controller {
    pub world: Rc<World>,
    pub threads: Vec<VThread>,
}

thread_local! {
    static STACKS: RefCell<Vec<corosensei::stack::DefaultStack>> = const { RefCell::new(Vec::new()) };
}

fn recycle(co: Coroutine<(), Pending, ()>) {
    if co.done() {
        let st = co.into_stack();
        STACKS.with(|s| s.borrow_mut().push(st));
    }
}

impl Controller {
    pub fn new(world: Rc<World>) -> Controller {
        Controller { world, threads: vec![] }
    }

    /// Create a world thread running `body`. It does not run until first resumed.
    pub fn spawn(&mut self, is_writer: bool, body: Body) -> usize {
        let tid = self.world.add_thread(is_writer);
        let ycell: YCell = Rc::new(std::cell::Cell::new(std::ptr::null()));
        let yc2 = ycell.clone();
        let stack = STACKS
            .with(|s| s.borrow_mut().pop())
            .unwrap_or_else(|| corosensei::stack::DefaultStack::new(512 * 1024).expect("coroutine stack"));
        let co = Coroutine::with_stack(stack, move |y: &Yielder<(), Pending>, _: ()| {
            let yp = y as *const Yielder<(), Pending>;
            yc2.set(yp);
            CUR.with(|c| {
                if let Some(ctx) = c.borrow_mut().as_mut() {
                    ctx.yielder = yp;
                }
            });
            body();
        });
        self.threads.push(VThread {
            tid,
            co: Some(co),
            ycell,
            pending: None,
            done: false,
            crashed: false,
        });
        self.threads.len() - 1
    }

    pub fn alive(&self, i: usize) -> bool {
        !self.threads[i].done && !self.threads[i].crashed
    }

    /// Resume thread i until its next scheduling point. Returns false if it finished.
    pub fn step(&mut self, i: usize) -> bool {
        let runnable = self.threads.iter().filter(|t| !t.done && !t.crashed).count();
        self.world.0.borrow_mut().runnable = runnable;
        let world = self.world.clone();
        let t = &mut self.threads[i];
        let co = t.co.as_mut().expect("coroutine");
        CUR.with(|c| {
            *c.borrow_mut() = Some(CurCtx {
                world,
                tid: t.tid,
                yielder: t.ycell.get(),
            })
        });
        let r = co.resume(());
        CUR.with(|c| *c.borrow_mut() = None);
        match r {
            CoroutineResult::Yield(p) => {
                t.pending = Some(p);
                true
            }
            CoroutineResult::Return(()) => {
                t.pending = None;
                t.done = true;
                if let Some(co) = t.co.take() {
                    recycle(co);
                }
                false
            }
        }
    }

    /// Kill thread i where it stands (process death: only munmap/close run).
    pub fn crash(&mut self, i: usize) {
        let world = self.world.clone();
        let t = &mut self.threads[i];
        if t.done || t.crashed {
            return;
        }
        t.crashed = true;
        world.0.borrow_mut().tearing_down = true;
        CUR.with(|c| {
            *c.borrow_mut() = Some(CurCtx {
                world: world.clone(),
                tid: t.tid,
                yielder: t.ycell.get(),
            })
        });
        if let Some(mut co) = t.co.take() {
            if co.started() && !co.done() {
                co.force_unwind();
            }
            recycle(co);
        }
        CUR.with(|c| *c.borrow_mut() = None);
        world.0.borrow_mut().tearing_down = false;
    }

    /// Tear everything down (end of a case).
    pub fn finish(&mut self) {
        for i in 0..self.threads.len() {
            if !self.threads[i].done && !self.threads[i].crashed {
                self.crash(i);
            }
        }
        CUR.with(|c| *c.borrow_mut() = None);
    }
}
