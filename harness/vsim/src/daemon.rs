//! Helpers around the daemon's verif wrappers: wire-level tracking reports with exact values,
//! recording sinks, message construction.

use crate::layout::Rec;
use chrony_candm::common::ChronyAddr;
use chrony_candm::reply::{Reply, ReplyBody, Status, Tracking};
use clock_bound_d::{ChannelId, Message};
use clock_bound_shm::{ClockErrorBound, ShmWrite};
use serde::{Deserialize, Serialize};
use std::cell::RefCell;
use std::rc::Rc;
use std::time::{Duration, SystemTime, UNIX_EPOCH};

/// A chrony 32-bit float given by its two wire fields: value = coef * 2^(exp - 25).
#[derive(Clone, Copy, Debug, PartialEq, Eq, Hash, Serialize, Deserialize)]
pub struct WireFloat {
    /// 7-bit signed exponent field, -64..=63
    pub exp: i8,
    /// 25-bit signed coefficient field, -2^24..2^24
    pub coef: i32,
}

impl WireFloat {
    pub const ZERO: WireFloat = WireFloat { exp: 0, coef: 0 };
    /// 2^k exactly (normalised coefficient).
    pub const fn pow2(k: i8) -> WireFloat {
        WireFloat { exp: k + 2, coef: 1 << 23 }
    }
    pub fn bits(&self) -> u32 {
        (((self.exp as i32) & 0x7f) as u32) << 25 | ((self.coef as u32) & 0x01ff_ffff)
    }
    /// Exact value as f64 (coef has 25 bits, so the product is exact).
    pub fn to_f64(&self) -> f64 {
        self.coef as f64 * 2f64.powi(self.exp as i32 - 25)
    }
    /// Exact value in units of 2^-66 seconds (requires exp >= -41).
    pub fn units66(&self) -> i128 {
        let sh = self.exp as i32 - 25 + 66;
        assert!(sh >= 0, "exponent too small for the exact representation");
        (self.coef as i128) << sh
    }
}

/// The report fields that matter, at wire level.
#[derive(Clone, Copy, Debug, PartialEq, Eq, Hash, Serialize, Deserialize)]
pub struct WireReport {
    pub ref_id: u32,
    pub leap: u16,
    /// reference time, ns since the epoch (>= 0)
    pub ref_time_ns: i64,
    pub offset: WireFloat,
    pub delay: WireFloat,
    pub disp: WireFloat,
    pub interval: WireFloat,
}

const OFF_CURRENT_CORRECTION: usize = 68;
const OFF_ROOT_DELAY: usize = 92;
const OFF_ROOT_DISPERSION: usize = 96;
const OFF_LAST_UPDATE_INTERVAL: usize = 100;
const REPLY_LEN: usize = 104;

fn template_tracking(r: &WireReport) -> Tracking {
    Tracking {
        ref_id: r.ref_id,
        ip_addr: ChronyAddr::default(),
        stratum: 1,
        leap_status: r.leap,
        ref_time: UNIX_EPOCH + Duration::new((r.ref_time_ns / 1_000_000_000) as u64, (r.ref_time_ns % 1_000_000_000) as u32),
        current_correction: 0.0.into(),
        last_offset: 0.0.into(),
        rms_offset: 0.0.into(),
        freq_ppm: 0.0.into(),
        resid_freq_ppm: 0.0.into(),
        skew_ppm: 0.0.into(),
        root_delay: 0.0.into(),
        root_dispersion: 0.0.into(),
        last_update_interval: 0.0.into(),
    }
}

/// Serialise a Tracking reply the way chronyd would put it on the wire, with the four floats given
/// as raw bits.
pub fn wire_reply_bytes(r: &WireReport, sequence: u32) -> Vec<u8> {
    let reply = Reply {
        status: Status::Success,
        cmd: 33,
        sequence,
        body: ReplyBody::Tracking(template_tracking(r)),
    };
    let mut buf: Vec<u8> = Vec::with_capacity(REPLY_LEN);
    reply.serialize(&mut buf);
    assert_eq!(buf.len(), REPLY_LEN, "unexpected tracking reply length");
    buf[OFF_CURRENT_CORRECTION..OFF_CURRENT_CORRECTION + 4].copy_from_slice(&r.offset.bits().to_be_bytes());
    buf[OFF_ROOT_DELAY..OFF_ROOT_DELAY + 4].copy_from_slice(&r.delay.bits().to_be_bytes());
    buf[OFF_ROOT_DISPERSION..OFF_ROOT_DISPERSION + 4].copy_from_slice(&r.disp.bits().to_be_bytes());
    buf[OFF_LAST_UPDATE_INTERVAL..OFF_LAST_UPDATE_INTERVAL + 4].copy_from_slice(&r.interval.bits().to_be_bytes());
    buf
}

/// Deserialise with the real chrony-candm code: this is what the daemon receives.
pub fn wire_reply(r: &WireReport, sequence: u32) -> Reply {
    let buf = wire_reply_bytes(r, sequence);
    let mut slice: &[u8] = &buf;
    Reply::deserialize(&mut slice).expect("crafted tracking reply must deserialise")
}

pub fn tracking_of(r: &WireReport) -> Tracking {
    match wire_reply(r, 0).body {
        ReplyBody::Tracking(t) => t,
        _ => unreachable!(),
    }
}

/// Self-test of the wire offsets: the floats of the deserialised report equal the exact values.
pub fn self_test() -> Result<(), String> {
    let r = WireReport {
        ref_id: 0x50484330,
        leap: 2,
        ref_time_ns: 1_700_000_000_123_456_789,
        offset: WireFloat { exp: -3, coef: -5_000_001 },
        delay: WireFloat { exp: 1, coef: 9_999_999 },
        disp: WireFloat { exp: -10, coef: 16_777_215 },
        interval: WireFloat { exp: 5, coef: 8_388_608 },
    };
    let t = tracking_of(&r);
    let chk = |name: &str, got: f64, want: f64| if got == want { Ok(()) } else { Err(format!("wire self-test: {} decoded as {} instead of {}", name, got, want)) };
    chk("current_correction", f64::from(t.current_correction), r.offset.to_f64())?;
    chk("root_delay", f64::from(t.root_delay), r.delay.to_f64())?;
    chk("root_dispersion", f64::from(t.root_dispersion), r.disp.to_f64())?;
    chk("last_update_interval", f64::from(t.last_update_interval), r.interval.to_f64())?;
    if t.leap_status != 2 || t.ref_id != r.ref_id {
        return Err("wire self-test: leap/ref_id mismatch".into());
    }
    let rt = t.ref_time.duration_since(UNIX_EPOCH).map_err(|e| e.to_string())?;
    if rt.as_nanos() as i64 != r.ref_time_ns {
        return Err("wire self-test: ref_time mismatch".into());
    }
    Ok(())
}

/// Exact value of (|offset| + dispersion + delay/2) * 1e9 ns as numerator over 2^66.
pub fn exact_bound_num(r: &WireReport) -> i128 {
    let s = r.offset.units66().abs() + r.disp.units66() + r.delay.units66() / 2;
    // delay.units66() is a multiple of 2 because exp >= -40 is required by the generators
    s * 1_000_000_000
}

pub const DEN66: i128 = 1i128 << 66;

/// ceil(num / 2^66)
pub fn ceil66(num: i128) -> i128 {
    (num + DEN66 - 1) >> 66
}

/// A sink that records every published record.
#[derive(Clone, Default)]
pub struct RecSink(pub Rc<RefCell<Vec<Rec>>>);

impl ShmWrite for RecSink {
    fn write(&mut self, ceb: &ClockErrorBound) {
        self.0.borrow_mut().push(Rec::from_ceb(ceb));
    }
}

/// A sink that forwards to an inner writer and then calls back with the record and its index.
pub struct HookSink<W: ShmWrite> {
    pub inner: W,
    pub count: usize,
    pub after: Box<dyn FnMut(usize, Rec)>,
}

impl<W: ShmWrite> ShmWrite for HookSink<W> {
    fn write(&mut self, ceb: &ClockErrorBound) {
        self.inner.write(ceb);
        let k = self.count;
        self.count += 1;
        (self.after)(k, Rec::from_ceb(ceb));
    }
}

pub fn ts(ns: i128) -> libc::timespec {
    crate::clock::ns_to_timespec(ns)
}

pub fn systime(ns: i64) -> SystemTime {
    UNIX_EPOCH + Duration::new((ns / 1_000_000_000) as u64, (ns % 1_000_000_000) as u32)
}

pub fn msg_data(r: &WireReport, phc: i64, as_of_ns: i128) -> Message {
    Message::ClockErrorBoundData((tracking_of(r), phc, ts(as_of_ns)))
}

pub fn other_message(k: u8) -> Message {
    match k % 4 {
        0 => Message::ThreadTerminate(ChannelId::ClockErrorBoundPoller),
        1 => Message::ThreadPanic(ChannelId::ClockErrorBoundPoller),
        2 => Message::ThreadTerminate(ChannelId::MainThread),
        _ => Message::ThreadPanic(ChannelId::ShmWriter),
    }
}
