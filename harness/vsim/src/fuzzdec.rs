//! Decoders from raw fuzzer bytes to the case structures of the property checks, and the generic
//! in-process fuzz entry point. The coverage-guided targets (harness/fuzz) therefore run the very
//! same oracles as the proptest-driven checks.

use crate::daemon::{WireFloat, WireReport};
use crate::layout::Rec;
use crate::props;
use crate::runner::{Env, Property, Tier};
use std::cell::RefCell;

pub struct Cur<'a> {
    d: &'a [u8],
    p: usize,
}

impl<'a> Cur<'a> {
    pub fn new(d: &'a [u8]) -> Cur<'a> {
        Cur { d, p: 0 }
    }
    pub fn left(&self) -> usize {
        self.d.len().saturating_sub(self.p)
    }
    pub fn u8(&mut self) -> u8 {
        let v = self.d.get(self.p).copied().unwrap_or(0);
        self.p += 1;
        v
    }
    pub fn u16(&mut self) -> u16 {
        u16::from_le_bytes([self.u8(), self.u8()])
    }
    pub fn u32(&mut self) -> u32 {
        u32::from_le_bytes([self.u8(), self.u8(), self.u8(), self.u8()])
    }
    pub fn u64(&mut self) -> u64 {
        (self.u32() as u64) | ((self.u32() as u64) << 32)
    }
    pub fn i64(&mut self) -> i64 {
        self.u64() as i64
    }
    pub fn below(&mut self, n: u64) -> u64 {
        if n == 0 {
            0
        } else {
            self.u64() % n
        }
    }
    pub fn bool(&mut self) -> bool {
        self.u8() & 1 == 1
    }
    pub fn rest(&mut self) -> Vec<u8> {
        let r = self.d.get(self.p..).unwrap_or(&[]).to_vec();
        self.p = self.d.len();
        r
    }
}

fn wf_nonneg(c: &mut Cur) -> WireFloat {
    let exp = -39 + (c.u8() % 61) as i8; // -39..=21
    let coef = (c.u32() & 0x00ff_ffff) as i32;
    WireFloat { exp, coef }
}

pub fn decode_bound_case(d: &[u8]) -> props::daemon::BoundCase {
    let mut c = Cur::new(d);
    let mut offset = wf_nonneg(&mut c);
    if c.bool() {
        offset.coef = -offset.coef;
    }
    let delay = wf_nonneg(&mut c);
    let disp = wf_nonneg(&mut c);
    let leap = (c.u8() % 3) as u16;
    let phc = if c.bool() { Some((c.u64() % (1 << 50)) as i64) } else { None };
    props::daemon::BoundCase {
        report: WireReport {
            ref_id: 0x50484330,
            leap,
            ref_time_ns: 1_700_000_000_000_000_000,
            offset,
            delay,
            disp,
            interval: WireFloat::pow2(0),
        },
        phc,
        drift: c.u32(),
        as_of_ns: (c.u64() % 4_000_000_000_000_000_000) as i64,
        phc_prev: if c.bool() { Some((c.u64() % (1 << 50)) as i64) } else { None },
    }
}

pub fn decode_class_case(d: &[u8]) -> props::daemon::ClassCase {
    let mut c = Cur::new(d);
    let leap = if c.bool() { (c.u8() % 8) as u16 } else { c.u16() };
    let interval = WireFloat {
        exp: -30 + (c.u8() % 71) as i8,
        coef: (c.u32() & 0x00ff_ffff) as i32,
    };
    let age = c.i64() % 1_000_000_000_000_000;
    props::daemon::ClassCase {
        leap,
        interval,
        age_ns: age,
        prefix: c.u8() % 7,
    }
}

pub fn decode_fail_case(d: &[u8]) -> props::client::FailCase {
    let mut c = Cur::new(d);
    let m31 = 1i64 << 31;
    let sec = |c: &mut Cur| (c.i64() % (m31 + 1)).clamp(-m31, m31);
    let nsec = |c: &mut Cur| (c.u32() % 1_000_000_000) as i64;
    let rec = Rec {
        as_of_s: sec(&mut c),
        as_of_ns: nsec(&mut c),
        void_s: sec(&mut c),
        void_ns: nsec(&mut c),
        bound: (c.u64() % (1 << 60)) as i64,
        drift: c.u32(),
        reserved: c.u32(),
        status: (c.u8() % 3) as i32,
    };
    let span = (1i128 << 32) * 1_000_000_000;
    let off = match c.u8() % 4 {
        0 => (c.i64() % 10_000_000) as i128,
        1 => (c.i64() % 3_000) as i128,
        2 => -((c.u64() as i128) % span),
        _ => (c.u64() as i128) % span,
    };
    let lim = (1i128 << 31) * 1_000_000_000 + 999_999_999;
    let mono = (rec.as_of_ns_total() - off).clamp(-(1i128 << 31) * 1_000_000_000, lim);
    let real = sec(&mut c) as i128 * 1_000_000_000 + nsec(&mut c) as i128;
    props::client::FailCase {
        rec,
        real_ns: real as i64,
        mono_ns: mono as i64,
        use_c: false,
    }
}

pub fn decode_file_case(d: &[u8]) -> props::files::FileCase {
    let mut c = Cur::new(d);
    let kind = match c.u8() % 16 {
        0 => props::files::PathKind::SymlinkToFile,
        1 => props::files::PathKind::Missing,
        2 => props::files::PathKind::Directory,
        3 => props::files::PathKind::DevNull,
        _ => props::files::PathKind::File,
    };
    let rec = Rec {
        as_of_s: c.i64(),
        as_of_ns: (c.u32() % 1_000_000_000) as i64,
        void_s: c.i64(),
        void_ns: (c.u32() % 1_000_000_000) as i64,
        bound: c.i64(),
        drift: c.u32(),
        reserved: c.u32(),
        status: (c.u8() % 3) as i32,
    };
    props::files::FileCase {
        kind,
        content: c.rest(),
        rec,
        use_c: false,
    }
}

pub fn decode_conc_case(d: &[u8]) -> props::shm::ConcCase {
    use props::shm::*;
    let mut c = Cur::new(d);
    let init = match c.u8() % 6 {
        0 => InitFile::Missing,
        1 => InitFile::Valid { gen: 65534 },
        2 => InitFile::Valid { gen: c.u16() | 1 },
        3 => InitFile::Valid { gen: c.u16().max(1) },
        _ => InitFile::Valid { gen: 2 },
    };
    let pubs = 1 + (c.u8() % 5) as u32;
    let nreaders = 1 + (c.u8() % 3) as usize;
    let mut readers = vec![];
    for _ in 0..nreaders {
        let n = 1 + (c.u8() % 4) as usize;
        let mut ops = vec![];
        for _ in 0..n {
            ops.push(match c.u8() % 8 {
                0 => ROp::Open,
                1 => ROp::WaitPubs((c.u8() % 4) as u32),
                2 => ROp::QSnap,
                _ => ROp::Snap,
            });
        }
        readers.push(ops);
    }
    let stop_at = if c.u8() % 4 == 0 { Some((c.u8() % 70) as u32) } else { None };
    let nsched = (c.u8() as usize).min(c.left() / 2);
    let sched: Vec<u16> = (0..nsched).map(|_| c.u16()).collect();
    let reads: Vec<u16> = c.rest().chunks(2).map(|p| u16::from_le_bytes([p[0], *p.get(1).unwrap_or(&0)])).map(|x| if x & 3 == 0 { 0 } else { x }).collect();
    ConcCase {
        init,
        lives: vec![
            Life {
                ops: vec![WOp::Publish(pubs)],
                stop_at,
                stall: false,
            },
            Life {
                ops: vec![WOp::Publish(1)],
                stop_at: None,
                stall: false,
            },
        ],
        readers,
        policy: Policy::Random,
        sched,
        reads,
    }
}

thread_local! {
    static FUZZ_ENV: RefCell<Option<Env>> = const { RefCell::new(None) };
}

/// Run one fuzzer input through property P's decoder and check; panics (=> fuzzer crash) on a
/// violation, with the case in the panic message.
pub fn fuzz_one<P: Property>(data: &[u8]) {
    let Some(case) = P::from_fuzz_bytes(data) else { return };
    FUZZ_ENV.with(|e| {
        let mut g = e.borrow_mut();
        if g.is_none() {
            P::init();
            let dir = std::path::PathBuf::from(format!("/dev/shm/clockbound-verif-fuzz.{}", std::process::id()));
            *g = Some(Env::new(&dir, Tier::Thorough, 0));
        }
        let env = g.as_mut().unwrap();
        let v = P::check(&case, env);
        if let Some(m) = v.fail {
            panic!("VERIF-FUZZ-VIOLATION property={} {}\ncase={}", P::ID, m, serde_json::to_string(&case).unwrap_or_default());
        }
    });
}
