//! Small helpers around the real ShmWriter/ShmReader.

use clock_bound_shm::ShmWriter;
use std::path::Path;

/// `ShmWriter::new`, then close the descriptor that `mmap_segment_at` leaves open (the mapping
/// stays valid). The daemon creates one writer per process life, so the leak is harmless there, but
/// a harness that creates tens of thousands of writers per process runs out of descriptors.
pub fn new_writer(path: &Path) -> std::io::Result<ShmWriter> {
    // lowest free descriptor = the one the writer's open() will get
    let probe = unsafe { libc::dup(0) };
    if probe >= 0 {
        unsafe { libc::close(probe) };
    }
    let w = ShmWriter::new(path)?;
    if probe >= 0 {
        if let Ok(target) = std::fs::read_link(format!("/proc/self/fd/{}", probe)) {
            if target == path {
                unsafe { libc::close(probe) };
            }
        }
    }
    Ok(w)
}
