//! Small helpers around the real ShmWriter/ShmReader.

use clock_bound_shm::ShmWriter;
use std::path::Path;

/// `ShmWriter::new`, then close the descriptor that `mmap_segment_at` leaves open (the mapping
/// stays valid). The daemon creates one writer per process life, so the leak is harmless there, but
/// a harness that creates tens of thousands of writers per process runs out of descriptors.
///
/// The leaked descriptor is recognised as: opened read-write on `path` (readers open read-only,
/// `wipe` closes its own descriptor) among the descriptors at or above the lowest one that was
/// free before the call.
pub fn new_writer(path: &Path) -> std::io::Result<ShmWriter> {
    let probe = unsafe { libc::dup(0) };
    if probe >= 0 {
        unsafe { libc::close(probe) };
    }
    let w = ShmWriter::new(path)?;
    // the path may end in a symbolic link: /proc/self/fd shows the resolved name
    let canonical = std::fs::canonicalize(path).ok();
    if probe >= 0 {
        // other threads of the harness open and close descriptors concurrently, so the leaked one is
        // looked for in a generous window around the lowest free descriptor
        for fd in 3..probe + 96 {
            let fl = unsafe { libc::fcntl(fd, libc::F_GETFL) };
            if fl < 0 || (fl & libc::O_ACCMODE) != libc::O_RDWR {
                continue;
            }
            if let Ok(target) = std::fs::read_link(format!("/proc/self/fd/{}", fd)) {
                if target == path || Some(&target) == canonical.as_ref() {
                    unsafe { libc::close(fd) };
                    break;
                }
            }
        }
    }
    Ok(w)
}

/// Close every read-write descriptor of this process that refers to a file under `prefix`
/// (including files that have been deleted since). Called when a case is over and all writers and
/// readers are gone: a writer that was killed inside `ShmWriter::new` (C04, C18) leaves the
/// descriptor of `mmap_segment_at` behind without `new_writer` having had a chance to close it.
pub fn close_leaked_under(prefix: &Path) {
    let Some(pfx) = prefix.to_str() else { return };
    let Ok(rd) = std::fs::read_dir("/proc/self/fd") else { return };
    let fds: Vec<i32> = rd.filter_map(|e| e.ok()).filter_map(|e| e.file_name().to_str().and_then(|s| s.parse::<i32>().ok())).collect();
    for fd in fds {
        if fd < 3 {
            continue;
        }
        let fl = unsafe { libc::fcntl(fd, libc::F_GETFL) };
        if fl < 0 || (fl & libc::O_ACCMODE) != libc::O_RDWR {
            continue;
        }
        if let Ok(target) = std::fs::read_link(format!("/proc/self/fd/{}", fd)) {
            if target.to_str().map(|t| t.starts_with(pfx)).unwrap_or(false) {
                unsafe { libc::close(fd) };
            }
        }
    }
}
