//! Segment layout transcribed from docs/PROTOCOL.md (NOT from the Rust structs), native endian.
//!
//!  offset  width  field
//!     0     4+4   magic number (two 32-bit words 0x414D5A4E, 0x43420200)
//!     8      4    segment size
//!    12      2    version
//!    14      2    generation
//!    16     8+8   as-of timestamp (tv_sec, tv_nsec)
//!    32     8+8   void-after timestamp (tv_sec, tv_nsec)
//!    48      8    bound (ns)
//!    56      4    max drift (ppb)
//!    60      4    reserved
//!    64      4    clock status (0 unknown, 1 synchronized, 2 free running)
//!    68      4    padding
//!    72           total

use clock_bound_shm::{ClockErrorBound, ClockStatus};
use serde::{Deserialize, Serialize};

pub const MAGIC0: u32 = 0x414D5A4E;
pub const MAGIC1: u32 = 0x43420200;
pub const OFF_SIZE: usize = 8;
pub const OFF_VERSION: usize = 12;
pub const OFF_GENERATION: usize = 14;
pub const OFF_AS_OF: usize = 16;
pub const OFF_VOID_AFTER: usize = 32;
pub const OFF_BOUND: usize = 48;
pub const OFF_DRIFT: usize = 56;
pub const OFF_RESERVED: usize = 60;
pub const OFF_STATUS: usize = 64;
pub const HEADER_LEN: usize = 16;
pub const RECORD_LEN: usize = 56;
pub const SEG_LEN: usize = 72;

/// A record in harness terms (all fields plain integers).
#[derive(Clone, Copy, Debug, PartialEq, Eq, Hash, Serialize, Deserialize, Default)]
pub struct Rec {
    pub as_of_s: i64,
    pub as_of_ns: i64,
    pub void_s: i64,
    pub void_ns: i64,
    pub bound: i64,
    pub drift: u32,
    pub reserved: u32,
    /// 0 unknown, 1 synchronized, 2 free running
    pub status: i32,
}

pub fn status_from_i32(s: i32) -> ClockStatus {
    match s {
        1 => ClockStatus::Synchronized,
        2 => ClockStatus::FreeRunning,
        _ => ClockStatus::Unknown,
    }
}

pub fn status_to_i32(s: ClockStatus) -> i32 {
    match s {
        ClockStatus::Unknown => 0,
        ClockStatus::Synchronized => 1,
        ClockStatus::FreeRunning => 2,
    }
}

impl Rec {
    pub fn to_ceb(&self) -> ClockErrorBound {
        ClockErrorBound::new(
            libc::timespec {
                tv_sec: self.as_of_s,
                tv_nsec: self.as_of_ns,
            },
            libc::timespec {
                tv_sec: self.void_s,
                tv_nsec: self.void_ns,
            },
            self.bound,
            self.drift,
            self.reserved,
            status_from_i32(self.status),
        )
    }
    pub fn as_of_ns_total(&self) -> i128 {
        self.as_of_s as i128 * 1_000_000_000 + self.as_of_ns as i128
    }
    pub fn void_ns_total(&self) -> i128 {
        self.void_s as i128 * 1_000_000_000 + self.void_ns as i128
    }
    /// Encode the 56 record bytes as PROTOCOL.md lays them out (padding zero).
    pub fn encode(&self) -> [u8; RECORD_LEN] {
        let mut b = [0u8; RECORD_LEN];
        b[0..8].copy_from_slice(&self.as_of_s.to_ne_bytes());
        b[8..16].copy_from_slice(&self.as_of_ns.to_ne_bytes());
        b[16..24].copy_from_slice(&self.void_s.to_ne_bytes());
        b[24..32].copy_from_slice(&self.void_ns.to_ne_bytes());
        b[32..40].copy_from_slice(&self.bound.to_ne_bytes());
        b[40..44].copy_from_slice(&self.drift.to_ne_bytes());
        b[44..48].copy_from_slice(&self.reserved.to_ne_bytes());
        b[48..52].copy_from_slice(&self.status.to_ne_bytes());
        b
    }
    /// Decode a record from the 56 bytes that follow the header (status is returned raw).
    pub fn decode(b: &[u8]) -> Rec {
        let i64at = |o: usize| i64::from_ne_bytes(b[o..o + 8].try_into().unwrap());
        let u32at = |o: usize| u32::from_ne_bytes(b[o..o + 4].try_into().unwrap());
        Rec {
            as_of_s: i64at(0),
            as_of_ns: i64at(8),
            void_s: i64at(16),
            void_ns: i64at(24),
            bound: i64at(32),
            drift: u32at(40),
            reserved: u32at(44),
            status: u32at(48) as i32,
        }
    }
    /// Decode a record from a value returned by the library (private fields; repr(C)).
    pub fn from_ceb(ceb: &ClockErrorBound) -> Rec {
        let mut buf = [0u8; RECORD_LEN];
        // Only the 52 non-padding bytes are copied.
        unsafe {
            std::ptr::copy_nonoverlapping((ceb as *const ClockErrorBound).cast::<u8>(), buf.as_mut_ptr(), 52);
        }
        Rec::decode(&buf)
    }
}

/// Header fields in harness terms.
#[derive(Clone, Copy, Debug, PartialEq, Eq, Serialize, Deserialize)]
pub struct Hdr {
    pub magic0: u32,
    pub magic1: u32,
    pub size: u32,
    pub version: u16,
    pub generation: u16,
}

impl Hdr {
    pub fn valid(generation: u16) -> Hdr {
        Hdr {
            magic0: MAGIC0,
            magic1: MAGIC1,
            size: SEG_LEN as u32,
            version: 1,
            generation,
        }
    }
    pub fn encode(&self) -> [u8; HEADER_LEN] {
        let mut b = [0u8; HEADER_LEN];
        b[0..4].copy_from_slice(&self.magic0.to_ne_bytes());
        b[4..8].copy_from_slice(&self.magic1.to_ne_bytes());
        b[8..12].copy_from_slice(&self.size.to_ne_bytes());
        b[12..14].copy_from_slice(&self.version.to_ne_bytes());
        b[14..16].copy_from_slice(&self.generation.to_ne_bytes());
        b
    }
    pub fn decode(b: &[u8]) -> Hdr {
        Hdr {
            magic0: u32::from_ne_bytes(b[0..4].try_into().unwrap()),
            magic1: u32::from_ne_bytes(b[4..8].try_into().unwrap()),
            size: u32::from_ne_bytes(b[8..12].try_into().unwrap()),
            version: u16::from_ne_bytes(b[12..14].try_into().unwrap()),
            generation: u16::from_ne_bytes(b[14..16].try_into().unwrap()),
        }
    }
}

/// A full 72-byte segment image.
pub fn segment_bytes(h: &Hdr, r: &Rec) -> Vec<u8> {
    let mut v = Vec::with_capacity(SEG_LEN);
    v.extend_from_slice(&h.encode());
    v.extend_from_slice(&r.encode());
    v
}

pub fn read_generation(path: &std::path::Path) -> Option<u16> {
    let b = std::fs::read(path).ok()?;
    if b.len() < 16 {
        return None;
    }
    Some(u16::from_ne_bytes(b[14..16].try_into().unwrap()))
}

/// Reference validator for opening a segment, written from the C16 statement.
#[derive(Clone, Debug, PartialEq, Eq)]
pub enum OpenVerdict {
    Ok,
    NotInitialized,
    Malformed,
}

pub fn reference_open_verdict(content: &[u8]) -> OpenVerdict {
    if content.len() < HEADER_LEN {
        return OpenVerdict::NotInitialized;
    }
    let h = Hdr::decode(&content[..HEADER_LEN]);
    if h.magic0 != MAGIC0 || h.magic1 != MAGIC1 {
        return OpenVerdict::NotInitialized;
    }
    if h.version == 0 || h.generation == 0 {
        return OpenVerdict::NotInitialized;
    }
    if (h.size as usize) < SEG_LEN {
        return OpenVerdict::Malformed;
    }
    OpenVerdict::Ok
}
