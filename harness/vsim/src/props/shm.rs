//! C02, C03, C04, C11, C18: the generation protocol of the shared-memory segment, run on the real
//! ShmWriter / ShmReader inside the scheduled release/acquire world (vmem).

use crate::layout::{reference_open_verdict, segment_bytes, Hdr, OpenVerdict, Rec};
use crate::runner::*;
use crate::vmem::*;
use clock_bound_shm::{ShmError, ShmReader, ShmWrite};
use proptest::prelude::*;
use serde::{Deserialize, Serialize};
use std::cell::RefCell;
use std::ffi::CString;
use std::os::unix::fs::MetadataExt;
use std::rc::Rc;

// ------------------------------------------------------------------------------------------------
// case description

#[derive(Clone, Debug, Serialize, Deserialize, PartialEq)]
pub enum InitFile {
    Missing,
    /// a valid segment holding record 0 with this generation (odd = left by a crashed writer)
    Valid { gen: u16 },
    /// arbitrary content
    Garbage { bytes: Vec<u8> },
}

#[derive(Clone, Debug, Serialize, Deserialize, PartialEq)]
pub enum WOp {
    /// n publications, each a sequence of scheduling points, with an idle marker after each
    Publish(u32),
    /// n publications in one uninterrupted burst (the reader "sleeps through" them)
    Skip(u32),
}

#[derive(Clone, Debug, Serialize, Deserialize, PartialEq)]
pub struct Life {
    pub ops: Vec<WOp>,
    /// die right before the n-th scheduling point of this life (None: clean exit)
    pub stop_at: Option<u32>,
    /// instead of dying at `stop_at`, stay alive but never run again (a stalled daemon keeps its
    /// descriptors, locks and mappings; it cannot be restarted while it is still there)
    #[serde(default)]
    pub stall: bool,
}

#[derive(Clone, Debug, Serialize, Deserialize, PartialEq)]
pub enum ROp {
    /// (re)open the segment
    Open,
    /// snapshot() scheduled like everything else
    Snap,
    /// snapshot() executed while the writer is idle and "time has passed" (views raised)
    QSnap,
    /// block until that many publications have completed (or the writer is gone)
    WaitPubs(u32),
    /// snapshot() during which the writer completes one update after each copy of the record,
    /// at most that many times
    Fire(u32),
}

#[derive(Clone, Debug, Serialize, Deserialize, PartialEq)]
pub enum Policy {
    /// every scheduling decision from the choice stream
    Random,
    /// PCT: fixed random priorities; at each change point the running thread drops to the bottom
    Pct { prio: Vec<u8>, changes: Vec<u16> },
    /// run each chosen thread for a burst of steps
    Burst { lens: Vec<u8> },
    /// systematic exploration: every decision (which runnable thread; which admissible message a
    /// load returns, 0 = newest) is an explicit index from this script, 0 once it is exhausted.
    /// The writer's start-up and the readers' opens run first, uninterleaved.
    Dfs { script: Vec<u8> },
}

#[derive(Clone, Debug, Serialize, Deserialize, PartialEq)]
pub struct ConcCase {
    pub init: InitFile,
    pub lives: Vec<Life>,
    pub readers: Vec<Vec<ROp>>,
    pub policy: Policy,
    pub sched: Vec<u16>,
    pub reads: Vec<u16>,
}

/// Record carried by publication p (p = 0: the initial content of a Valid file). Every 8-byte word
/// differs between different p.
pub fn rec_for(p: u32) -> Rec {
    let q = p as i64;
    Rec {
        // every third publication carries an as-of instant older than its predecessor's (a restarted
        // daemon's place-holder, a report reordered in the mailbox): publication order is not time order
        as_of_s: if q % 3 == 2 { 500 + q } else { 1_000 + q },
        as_of_ns: (q * 7919) % 1_000_000_000,
        void_s: 2_000 + q,
        void_ns: q % 1_000_000_000,
        bound: 10_000 + 3 * q,
        drift: (p % 999_999_000) + 1,
        reserved: p,
        status: (p % 3) as i32,
    }
}

// ------------------------------------------------------------------------------------------------
// execution

#[derive(Clone, Debug)]
pub enum SnapResult {
    Ok(Rec),
    Err(String),
}

#[derive(Clone, Debug)]
pub struct SnapEvent {
    pub reader: usize,
    pub op: usize,
    pub kind: u8, // 0 Snap, 1 QSnap, 2 Fire
    pub result: SnapResult,
    pub stats: CallStats,
    /// publications (global index) completed / started when the call began and ended
    pub completed_at_start: Option<u32>,
    pub completed_at_end: Option<u32>,
    pub completed_count_at_start: usize,
    /// the reader was opened during an earlier writer life than the one current at call time
    pub opened_in_life: usize,
    pub life_at_call: usize,
    pub accesses: u64,
    /// (quiesced calls) the writer was idle between publications or had exited cleanly - not dead
    /// inside an update - and at least one publication had completed in its current/last life
    pub writer_idle_after_publication: bool,
}

#[derive(Clone, Debug)]
pub enum Event {
    Open { reader: usize, op: usize, result: Result<(), String>, file_verdict: OpenVerdict },
    Snap(SnapEvent),
    LifeStart { life: usize, usable_before: bool, ino_before: u64, bytes_before: Vec<u8> },
    LifeReady { life: usize, ino_after: u64, bytes_after: Vec<u8> },
    LifeEnd { life: usize, crashed: bool, sched_points: u64, stop_name: Option<String>, gen_after: Option<u16>, version_after: Option<u16>, file_len: usize },
}

pub struct ConcRun {
    pub events: Vec<Event>,
    /// global publication index -> completed?
    pub completed: Vec<u32>,
    pub started: u32,
    pub sigbus: Option<String>,
    pub budget_exceeded: bool,
    pub final_bytes: Vec<u8>,
    pub late: Option<(Result<(), String>, Option<SnapResult>)>,
    pub steps: u64,
    pub gen_probe: Vec<u16>,
    pub init_valid: bool,
    pub init_rec: Rec,
    /// (Policy::Dfs) the decision points met: (kind, arity, chosen)
    pub decisions: Vec<(u8, u8, u8, bool)>,
}

struct Shared {
    events: Vec<Event>,
    life_now: usize,
    writer_idle_after_publication: bool,
}

fn err_name(e: &ShmError) -> String {
    format!("{:?}", e)
}

fn file_meta(path: &std::path::Path) -> (u64, Vec<u8>) {
    let ino = std::fs::metadata(path).map(|m| m.ino()).unwrap_or(0);
    (ino, std::fs::read(path).unwrap_or_default())
}

/// Did the current writer life complete at least one publication?
fn pubs_in_life(world: &Rc<World>, first: u32) -> bool {
    world.0.borrow().pubs_completed.last().map(|p| *p > first).unwrap_or(false)
}

pub const ACCESS_BUDGET: u64 = 1 << 25;

pub struct RunOpts {
    pub probe_gen: bool,
    pub late_reader: bool,
}

pub fn run_conc(case: &ConcCase, env: &mut Env, opts: &RunOpts) -> ConcRun {
    install_hooks();
    let path = env.fresh_path("conc-seg");
    let _ = std::fs::remove_file(&path);
    let init_valid = match &case.init {
        InitFile::Missing => false,
        InitFile::Valid { gen } => {
            std::fs::write(&path, segment_bytes(&Hdr::valid(*gen), &rec_for(0))).unwrap();
            *gen != 0
        }
        InitFile::Garbage { bytes } => {
            std::fs::write(&path, bytes).unwrap();
            // garbage that happens to carry a valid header is a usable segment whose record is
            // whatever follows the header (zero-padded by the page cache)
            reference_open_verdict(bytes) == OpenVerdict::Ok
        }
    };
    let init_rec = match &case.init {
        InitFile::Garbage { bytes } if init_valid => {
            let mut b = bytes.clone();
            b.resize(72, 0);
            Rec::decode(&b[16..72])
        }
        _ => rec_for(0),
    };
    let world = World::new(path.clone(), case.reads.clone());
    {
        let mut s = world.0.borrow_mut();
        s.access_budget = ACCESS_BUDGET;
        s.probe_on = opts.probe_gen;
    }
    if path.exists() {
        world.sync_with_file(None);
    }
    let shared = Rc::new(RefCell::new(Shared { events: vec![], life_now: 0, writer_idle_after_publication: false }));
    let mut ctl = Controller::new(world.clone());
    let cpath = CString::new(path.to_str().unwrap()).unwrap();

    // reader threads
    let mut reader_threads = vec![];
    for (ri, script) in case.readers.iter().enumerate() {
        let script = script.clone();
        let sh = shared.clone();
        let cp = cpath.clone();
        let p2 = path.clone();
        let body: Body = Box::new(move || {
            let mut reader: Option<ShmReader> = None;
            let mut opened_in_life = 0usize;
            for (oi, op) in script.iter().enumerate() {
                match op {
                    ROp::WaitPubs(k) => marker(Pending::Wait(*k)),
                    ROp::Open => {
                        marker(Pending::CallStart(9));
                        let verdict_before = reference_open_verdict(&std::fs::read(&p2).unwrap_or_default());
                        let r = ShmReader::new(&cp);
                        let res = match r {
                            Ok(rd) => {
                                reader = Some(rd);
                                opened_in_life = sh.borrow().life_now;
                                Ok(())
                            }
                            Err(e) => Err(err_name(&e)),
                        };
                        sh.borrow_mut().events.push(Event::Open {
                            reader: ri,
                            op: oi,
                            result: res,
                            file_verdict: verdict_before,
                        });
                        marker(Pending::CallEnd);
                    }
                    ROp::Snap | ROp::QSnap | ROp::Fire(_) => {
                        if reader.is_none() {
                            // not attached (open failed or never attempted): try to attach first
                            if let Ok(rd) = ShmReader::new(&cp) {
                                reader = Some(rd);
                                opened_in_life = sh.borrow().life_now;
                            } else {
                                continue;
                            }
                        }
                        let kind = match op {
                            ROp::Snap => 0u8,
                            ROp::QSnap => 1,
                            _ => 2,
                        };
                        marker(Pending::CallStart(match op {
                            ROp::Fire(n) => {
                                with_thread(|t| t.call = CallStats::default());
                                let _ = n;
                                2
                            }
                            _ => kind,
                        }));
                        let (c_last, c_count, acc0) = with_world(|w, tid| {
                            let wops = w.writer_ops;
                            let t = &mut w.threads[tid];
                            t.call = CallStats::default();
                            t.call_writer_ops_at_start = wops;
                            (w.pubs_completed.last().copied(), w.pubs_completed.len(), w.threads[tid].accesses_total)
                        })
                        .unwrap();
                        let rd = reader.as_mut().unwrap();
                        let result = match rd.snapshot() {
                            Ok(c) => SnapResult::Ok(Rec::from_ceb(c)),
                            Err(e) => SnapResult::Err(err_name(&e)),
                        };
                        let (stats, c_end, acc1) = with_world(|w, tid| (w.threads[tid].call.clone(), w.pubs_completed.last().copied(), w.threads[tid].accesses_total)).unwrap();
                        let life_at_call = sh.borrow().life_now;
                        let idle_flag = sh.borrow().writer_idle_after_publication;
                        sh.borrow_mut().events.push(Event::Snap(SnapEvent {
                            reader: ri,
                            op: oi,
                            kind,
                            result,
                            stats,
                            completed_at_start: c_last,
                            completed_at_end: c_end,
                            completed_count_at_start: c_count,
                            opened_in_life,
                            life_at_call,
                            accesses: acc1 - acc0,
                            writer_idle_after_publication: kind == 1 && idle_flag,
                        }));
                        marker(Pending::CallEnd);
                    }
                }
            }
            drop(reader);
        });
        reader_threads.push(ctl.spawn(false, body));
    }

    // writer lives are spawned one after the other
    let mut next_life = 0usize;
    let mut writer: Option<usize> = None;
    let mut writer_life = 0usize;
    let mut sched_pos = 0usize;
    let mut steps = 0u64;
    let mut burst_left = 0u32;
    let mut burst_thread = 0usize;
    let mut pct_prio: Vec<i32> = vec![];
    let mut pct_changes: Vec<u64> = vec![];
    if let Policy::Pct { prio, changes } = &case.policy {
        pct_prio = prio.iter().map(|p| *p as i32 + 10).collect();
        pct_changes = changes.iter().map(|c| *c as u64 % 400).collect();
    }
    let next_choice = |n: usize, sched_pos: &mut usize| -> usize {
        let c = case.sched.get(*sched_pos).copied().unwrap_or(0);
        *sched_pos += 1;
        pick(c, n)
    };

    let spawn_life = |ctl: &mut Controller, li: usize| -> usize {
        let life = case.lives[li].clone();
        let sh = shared.clone();
        let p2 = path.clone();
        let body: Body = Box::new(move || {
            let (ino_b, bytes_b) = file_meta(&p2);
            let usable = reference_open_verdict(&bytes_b) == OpenVerdict::Ok;
            {
                let mut s = sh.borrow_mut();
                s.life_now = li;
                s.events.push(Event::LifeStart {
                    life: li,
                    usable_before: usable,
                    ino_before: ino_b,
                    bytes_before: bytes_b,
                });
            }
            let mut w = match crate::shmutil::new_writer(&p2) {
                Ok(w) => w,
                Err(_) => return,
            };
            let (ino_a, bytes_a) = file_meta(&p2);
            sh.borrow_mut().events.push(Event::LifeReady {
                life: li,
                ino_after: ino_a,
                bytes_after: bytes_a,
            });
            marker(Pending::Idle);
            for op in &life.ops {
                let (n, burst) = match op {
                    WOp::Publish(n) => (*n, false),
                    WOp::Skip(n) => (*n, true),
                };
                if burst {
                    with_thread(|t| t.free_run = true);
                }
                for _ in 0..n {
                    let p = with_world(|w, tid| {
                        w.pubs_started += 1;
                        let p = w.pubs_started;
                        w.threads[tid].cur_pub = Some(p);
                        p
                    })
                    .unwrap();
                    w.write(&rec_for(p).to_ceb());
                    with_world(|w, tid| {
                        w.threads[tid].cur_pub = None;
                        w.pubs_completed.push(p);
                    });
                    if !burst {
                        marker(Pending::Idle);
                    }
                }
                if burst {
                    with_thread(|t| t.free_run = false);
                    marker(Pending::Idle);
                }
            }
            drop(w);
        });
        let i = ctl.spawn(true, body);
        if let Some(st) = case.lives[li].stop_at {
            let tid = ctl.threads[i].tid;
            ctl.world.0.borrow_mut().threads[tid].stop_at = Some(st as u64);
        }
        i
    };

    let end_life = |ctl: &Controller, li: usize, i: usize, crashed: bool, shared: &Rc<RefCell<Shared>>| {
        let tid = ctl.threads[i].tid;
        let (sp, name) = {
            let s = ctl.world.0.borrow();
            (s.threads[tid].sched_points, s.threads[tid].last_pending_name.map(|x| x.to_string()))
        };
        let bytes = std::fs::read(&path).unwrap_or_default();
        let (g, v) = if bytes.len() >= 16 {
            let h = Hdr::decode(&bytes[..16]);
            (Some(h.generation), Some(h.version))
        } else {
            (None, None)
        };
        shared.borrow_mut().events.push(Event::LifeEnd {
            life: li,
            crashed,
            sched_points: sp,
            stop_name: if crashed { name } else { None },
            gen_after: g,
            version_after: v,
            file_len: bytes.len(),
        });
    };

    let max_steps: u64 = 400_000_000;
    if let Policy::Dfs { script } = &case.policy {
        // uninterleaved set-up: the writer starts up, then every reader runs up to its first snapshot
        writer = Some(spawn_life(&mut ctl, 0));
        next_life = 1;
        let wi = writer.unwrap();
        let mut g = 0;
        while ctl.alive(wi) && ctl.threads[wi].pending != Some(Pending::Idle) && g < 10_000 {
            ctl.step(wi);
            g += 1;
        }
        for &ri in &reader_threads {
            let mut g = 0;
            while ctl.alive(ri) && ctl.threads[ri].pending != Some(Pending::CallStart(0)) && g < 10_000 {
                ctl.step(ri);
                g += 1;
            }
        }
        let mut s = world.0.borrow_mut();
        s.markers_yield = false;
        s.dfs = Some(Dfs {
            script: script.clone(),
            pos: 0,
            decisions: vec![],
        });
    }
    let mut last_life_crashed = false;
    let mut stalled: Option<usize> = None;
    let mut life_first_pub: u32 = 0;
    let mut dfs_last: Option<usize> = None;
    loop {
        if writer.is_none() && next_life < case.lives.len() {
            writer_life = next_life;
            life_first_pub = world.0.borrow().pubs_started;
            writer = Some(spawn_life(&mut ctl, next_life));
            next_life += 1;
        }
        // runnable set
        let completed = world.0.borrow().pubs_completed.len() as u32;
        let writer_gone = writer.is_none() && next_life >= case.lives.len();
        let mut runnable: Vec<usize> = vec![];
        for i in 0..ctl.threads.len() {
            if !ctl.alive(i) || Some(i) == stalled {
                continue;
            }
            if let Some(Pending::Wait(k)) = ctl.threads[i].pending {
                if completed < k && !writer_gone {
                    continue;
                }
            }
            runnable.push(i);
        }
        if runnable.is_empty() {
            // only blocked readers remain and the writer cannot make progress: release them
            let blocked: Vec<usize> = (0..ctl.threads.len()).filter(|i| ctl.alive(*i) && Some(*i) != stalled).collect();
            if blocked.is_empty() {
                break;
            }
            runnable = blocked;
        }
        if world.0.borrow().budget_exceeded || steps > max_steps {
            break;
        }
        // choose
        let i = match &case.policy {
            Policy::Random => runnable[next_choice(runnable.len(), &mut sched_pos)],
            Policy::Dfs { .. } => {
                // choice 0 = keep running the thread that ran last (no pre-emption) if it still can
                let mut order = runnable.clone();
                let mut costly = false;
                if let Some(last) = dfs_last {
                    if let Some(pos) = order.iter().position(|x| *x == last) {
                        order.remove(pos);
                        order.insert(0, last);
                        costly = true;
                    }
                }
                let k = world.0.borrow_mut().dfs.as_mut().map(|d| d.choose(0, order.len(), costly)).unwrap_or(0);
                dfs_last = Some(order[k]);
                order[k]
            }
            Policy::Burst { lens } => {
                if burst_left > 0 && runnable.contains(&burst_thread) {
                    burst_left -= 1;
                    burst_thread
                } else {
                    let t = runnable[next_choice(runnable.len(), &mut sched_pos)];
                    let l = lens.get(sched_pos % lens.len().max(1)).copied().unwrap_or(3) as u32;
                    burst_left = l;
                    burst_thread = t;
                    t
                }
            }
            Policy::Pct { .. } => {
                while pct_prio.len() < ctl.threads.len() {
                    let c = next_choice(64, &mut sched_pos) as i32;
                    pct_prio.push(c + 10);
                }
                let best = *runnable.iter().max_by_key(|i| (pct_prio[**i], -(**i as i32))).unwrap();
                if pct_changes.contains(&steps) {
                    let low = pct_prio.iter().copied().min().unwrap_or(0) - 1;
                    pct_prio[best] = low;
                }
                best
            }
        };
        // fairness: a reader that has already retried many times while the writer is alive waits for
        // the writer (an unfair schedule only repeats the same retry; dead/stalled writers are C18's
        // dedicated cases)
        let i = match writer {
            Some(wi) if wi != i && ctl.alive(wi) => {
                let tid = ctl.threads[i].tid;
                if world.0.borrow().threads[tid].call.data_reads > 64 && !matches!(ctl.threads[i].pending, Some(Pending::CallStart(_))) {
                    wi
                } else {
                    i
                }
            }
            _ => i,
        };
        // special reader calls handled atomically by the controller
        if let Some(Pending::CallStart(kind)) = ctl.threads[i].pending {
            if kind == 1 {
                // quiesced snapshot: writer idle, time has passed, then the call runs alone
                if let Some(wi) = writer {
                    let mut guard = 0u64;
                    while ctl.alive(wi) && ctl.threads[wi].pending != Some(Pending::Idle) && guard < 50_000_000 {
                        let alive = ctl.step(wi);
                        steps += 1;
                        guard += 1;
                        let tid = ctl.threads[wi].tid;
                        let (sp, st) = {
                            let s = world.0.borrow();
                            (s.threads[tid].sched_points, s.threads[tid].stop_at)
                        };
                        if alive && st.is_some() && Some(sp - 1) == st {
                            if case.lives[writer_life].stall {
                                stalled = Some(wi);
                                next_life = case.lives.len();
                            } else {
                                ctl.crash(wi);
                            }
                            { last_life_crashed = true; end_life(&ctl, writer_life, wi, true, &shared); }
                            writer = None;
                            break;
                        }
                        if !alive {
                            { last_life_crashed = false; end_life(&ctl, writer_life, wi, false, &shared); }
                            writer = None;
                            break;
                        }
                    }
                }
                let tid = ctl.threads[i].tid;
                world.raise_view(tid);
                {
                    // is the writer idle (or cleanly gone) after having completed a publication in this life?
                    let completed_in_life = pubs_in_life(&world, life_first_pub);
                    let idle_alive = writer.map(|wi| ctl.alive(wi) && ctl.threads[wi].pending == Some(Pending::Idle)).unwrap_or(false);
                    let gone_clean = writer.is_none() && !last_life_crashed;
                    shared.borrow_mut().writer_idle_after_publication = (idle_alive || gone_clean) && completed_in_life;
                }
                let mut guard = 0u64;
                loop {
                    let alive = ctl.step(i);
                    steps += 1;
                    guard += 1;
                    if !alive || ctl.threads[i].pending == Some(Pending::CallEnd) || guard > 300_000_000 || world.0.borrow().budget_exceeded {
                        break;
                    }
                }
                continue;
            }
            if kind == 2 {
                // under fire: after every copy of the record the writer completes one more update
                let rounds = case.readers.iter().flatten().find_map(|op| if let ROp::Fire(n) = op { Some(*n) } else { None }).unwrap_or(0);
                let mut fired = 0u32;
                let mut guard = 0u64;
                // make sure the generation differs from the reader's cached one: one update first
                if let Some(wi) = writer {
                    let before = world.0.borrow().pubs_completed.len();
                    let mut g2 = 0u64;
                    while ctl.alive(wi) && world.0.borrow().pubs_completed.len() == before && g2 < 10_000 {
                        g2 += 1;
                        if !ctl.step(wi) {
                            { last_life_crashed = false; end_life(&ctl, writer_life, wi, false, &shared); }
                            writer = None;
                            break;
                        }
                        steps += 1;
                    }
                    // finish the update (reach the idle marker)
                    while writer.is_some() && ctl.alive(wi) && ctl.threads[wi].pending != Some(Pending::Idle) && g2 < 20_000 {
                        g2 += 1;
                        if !ctl.step(wi) {
                            { last_life_crashed = false; end_life(&ctl, writer_life, wi, false, &shared); }
                            writer = None;
                            break;
                        }
                        steps += 1;
                    }
                }
                loop {
                    let alive = ctl.step(i);
                    steps += 1;
                    guard += 1;
                    if !alive || ctl.threads[i].pending == Some(Pending::CallEnd) || world.0.borrow().budget_exceeded || guard > 2_000_000_000 {
                        break;
                    }
                    let tid = ctl.threads[i].tid;
                    let copies = world.0.borrow().threads[tid].call.data_reads;
                    if ctl.threads[i].pending == Some(Pending::Load(LOC_GEN)) && copies > fired as u64 && fired < rounds {
                        if let Some(wi) = writer {
                            // one full update: from Idle to the next Idle
                            let mut first = true;
                            while ctl.alive(wi) && (first || ctl.threads[wi].pending != Some(Pending::Idle)) {
                                first = false;
                                if !ctl.step(wi) {
                                    { last_life_crashed = false; end_life(&ctl, writer_life, wi, false, &shared); }
                                    writer = None;
                                    break;
                                }
                                steps += 1;
                            }
                        }
                        fired += 1;
                    }
                }
                continue;
            }
        }
        let alive = ctl.step(i);
        steps += 1;
        if Some(i) == writer {
            let tid = ctl.threads[i].tid;
            let (sp, st) = {
                let s = world.0.borrow();
                (s.threads[tid].sched_points, s.threads[tid].stop_at)
            };
            if !alive {
                { last_life_crashed = false; end_life(&ctl, writer_life, i, false, &shared); }
                writer = None;
            } else if st.is_some() && Some(sp - 1) == st {
                if case.lives[writer_life].stall {
                    // a stalled daemon: alive, holding whatever it holds, never scheduled again
                    stalled = Some(i);
                    next_life = case.lives.len();
                } else {
                    ctl.crash(i);
                }
                { last_life_crashed = true; end_life(&ctl, writer_life, i, true, &shared); }
                writer = None;
            }
        }
    }
    // late reader: a brand-new client after everything is over
    let final_bytes = std::fs::read(&path).unwrap_or_default();
    let mut late = None;
    let (sigbus, budget_exceeded) = {
        let s = world.0.borrow();
        (s.sigbus.clone(), s.budget_exceeded)
    };
    ctl.finish();
    if opts.late_reader && !budget_exceeded {
        let r = ShmReader::new(&cpath);
        late = Some(match r {
            Ok(mut rd) => {
                let s = match rd.snapshot() {
                    Ok(c) => SnapResult::Ok(Rec::from_ceb(c)),
                    Err(e) => SnapResult::Err(err_name(&e)),
                };
                (Ok(()), Some(s))
            }
            Err(e) => (Err(err_name(&e)), None),
        });
    }
    let _ = std::fs::remove_file(&path);
    crate::shmutil::close_leaked_under(&env.dir);
    let s = world.0.borrow();
    let events = std::mem::take(&mut shared.borrow_mut().events);
    if std::env::var("VERIF_DEBUG").is_ok() {
        for e in &events {
            let t = format!("{:?}", e);
            eprintln!("{}", &t[..t.len().min(700)]);
        }
        eprintln!("steps {} completed {} started {}", steps, s.pubs_completed.len(), s.pubs_started);
    }
    ConcRun {
        events,
        completed: s.pubs_completed.clone(),
        started: s.pubs_started,
        sigbus,
        budget_exceeded,
        final_bytes,
        late,
        steps,
        gen_probe: s.gen_probe.clone(),
        init_valid,
        init_rec,
        decisions: s.dfs.as_ref().map(|d| d.decisions.clone()).unwrap_or_default(),
    }
}

// ------------------------------------------------------------------------------------------------
// oracles

/// Provenance of a copy as a publication index: Some(p) if all seven words come from publication p
/// (p = 0: the initial record of a Valid file).
fn uniform_prov(c: &[Prov; 7], init_valid: bool) -> Result<u32, String> {
    let idx = |p: &Prov| -> Result<u32, String> {
        match p {
            Prov::Pub(n) => Ok(*n),
            Prov::Init if init_valid => Ok(0),
            other => Err(format!("{:?}", other)),
        }
    };
    let first = idx(&c[0]).map_err(|e| format!("word 0 comes from {} (never a published record)", e))?;
    for (k, w) in c.iter().enumerate().skip(1) {
        let p = idx(w).map_err(|e| format!("word {} comes from {} (never a published record)", k, e))?;
        if p != first {
            return Err(format!("word 0 comes from publication {} but word {} from publication {}", first, k, p));
        }
    }
    Ok(first)
}

#[derive(Default)]
pub struct Judged {
    pub fail: Option<String>,
    pub overlapped: bool,
    pub stale: bool,
    pub needed_weak: bool,
    pub torn_seen: Vec<usize>,
    pub calls: u64,
    pub multi_call_with_pub_between: bool,
    pub wrap_crossed: bool,
    pub collision_exempt: bool,
    pub qsnap_checked: u64,
    pub cache_served_on_odd_or_zero: u64,
    pub retries_seen: u64,
    pub budget_exhausted_calls: u64,
    pub reader_survived_restart: bool,
    pub known_aba: u64,
}

/// C02 + C03 + C18 oracles over the events of a run.
pub fn judge(run: &ConcRun, case: &ConcCase, want_c03: bool, want_c18: bool) -> Judged {
    let mut j = Judged::default();
    let fail = |j: &mut Judged, m: String| {
        if j.fail.is_none() {
            j.fail = Some(m);
        }
    };
    if let Some(m) = &run.sigbus {
        fail(&mut j, format!("a thread touched the mapping beyond the end of the file: {}", m));
    }
    if run.budget_exceeded {
        fail(&mut j, format!("a snapshot() call performed more than 2^25 shared accesses without returning (C18)"));
    }
    // ordinal of each completed publication (generation steps); the initial record has ordinal 0
    let ordinal = |p: u32| -> Option<i64> {
        if p == 0 {
            return if run.init_valid { Some(0) } else { None };
        }
        run.completed.binary_search(&p).ok().map(|i| i as i64 + 1)
    };
    let aba_known = crate::runner::is_known_finding("C02", "generation-wrap-within-one-call");
    let rec_of = |p: u32| if p == 0 { run.init_rec } else { rec_for(p) };
    let nreaders = case.readers.len();
    // per reader: last returned record, its publication index (-1 = empty initial record), cached generation
    let mut last_rec: Vec<Rec> = vec![Rec::default(); nreaders];
    let mut last_p: Vec<i64> = vec![-1; nreaders];
    let mut cached_gen: Vec<u64> = vec![0; nreaders];
    let mut calls_per_reader = vec![0u32; nreaders];
    let mut completed_at_prev_call: Vec<usize> = vec![0; nreaders];
    // readers that cached a known-finding blend: order/catch-up are not judged for them any more
    let mut tainted: Vec<bool> = vec![false; nreaders];
    for ev in &run.events {
        match ev {
            Event::Open { reader, result: Ok(()), .. } => {
                tainted[*reader] = false;
                // a fresh ShmReader starts with the empty record and no cached generation
                last_rec[*reader] = Rec::default();
                last_p[*reader] = -1;
                cached_gen[*reader] = 0;
            }
            Event::Snap(s) => {
                j.calls += 1;
                let r = s.reader;
                if s.stats.overlapped_writer_ops > 0 {
                    j.overlapped = true;
                }
                if s.stats.stale_reads > 0 {
                    j.stale = true;
                }
                if let Some(k) = s.stats.first_new_word {
                    if !j.torn_seen.contains(&k) {
                        j.torn_seen.push(k);
                    }
                }
                if s.stats.data_reads > 1 {
                    j.retries_seen += s.stats.data_reads - 1;
                }
                if s.opened_in_life < s.life_at_call {
                    j.reader_survived_restart = true;
                }
                calls_per_reader[r] += 1;
                if calls_per_reader[r] >= 2 && s.completed_count_at_start > completed_at_prev_call[r] {
                    j.multi_call_with_pub_between = true;
                }
                completed_at_prev_call[r] = s.completed_count_at_start;
                let first_v = s.stats.first_version;
                let first_g = s.stats.first_generation;
                let must_serve_cache = first_v == Some(0) || first_g == Some(0) || first_g.map(|g| g & 1 == 1).unwrap_or(false) || (first_g.is_some() && first_g == Some(cached_gen[r]));
                match &s.result {
                    SnapResult::Ok(rec) => {
                        if s.stats.data_reads == 0 {
                            // answered from the cache
                            if *rec != last_rec[r] {
                                fail(&mut j, format!("reader {} call {}: no record copy was made but the result {:?} differs from its previous snapshot {:?}", r, s.op, rec, last_rec[r]));
                            }
                            if must_serve_cache {
                                j.cache_served_on_odd_or_zero += 1;
                            }
                        } else {
                            let copy = s.stats.last_copy.unwrap_or([Prov::Writer; 7]);
                            match uniform_prov(&copy, run.init_valid) {
                                Err(_) if aba_known && {
                                    // known finding: the 16-bit generation returned to the same value while
                                    // one call was in progress (the words span >= 32767 completed publications)
                                    let ords: Vec<Option<i64>> = copy
                                        .iter()
                                        .map(|p| match p {
                                            Prov::Pub(n) => ordinal(*n).or(Some(*n as i64)),
                                            Prov::Init if run.init_valid => Some(0),
                                            _ => None,
                                        })
                                        .collect();
                                    let words_span = ords.iter().all(|o| o.is_some()) && {
                                        let mx = ords.iter().map(|o| o.unwrap()).max().unwrap();
                                        let mn = ords.iter().map(|o| o.unwrap()).min().unwrap();
                                        mx - mn >= 32767
                                    };
                                    // or: the accepted generation value was read from two different stores at
                                    // least 65534 generation stores (32767 updates) apart
                                    let gen_span = s.stats.last_generation.map(|g| s.stats.gen_seen.iter().any(|e| e.0 == g && e.2 - e.1 >= 65534)).unwrap_or(false);
                                    words_span || gen_span
                                } =>
                                {
                                    j.known_aba += 1;
                                    tainted[r] = true;
                                    // the reader now caches a blended record; later calls are judged against it
                                    last_rec[r] = *rec;
                                    cached_gen[r] = s.stats.last_generation.unwrap_or(0);
                                }
                                Err(m) => {
                                    if s.stats.stale_reads > 0 {
                                        j.needed_weak = true;
                                    }
                                    fail(
                                        &mut j,
                                        format!(
                                            "reader {} call {}: snapshot() accepted a record that is a mixture: {} (first generation read {:?}, last {:?}, {} stale reads in the call => {})",
                                            r,
                                            s.op,
                                            m,
                                            first_g,
                                            s.stats.last_generation,
                                            s.stats.stale_reads,
                                            if s.stats.stale_reads > 0 { "needs a non-SC execution" } else { "sequentially consistent execution" }
                                        ),
                                    );
                                }
                                Ok(p) => {
                                    // known finding, second manifestation: the copy is uniform but it is tagged
                                    // with a generation value that was read from two stores >= 32767 updates apart
                                    if aba_known && s.stats.last_generation.map(|g| s.stats.gen_seen.iter().any(|e| e.0 == g && e.2 - e.1 >= 65534)).unwrap_or(false) {
                                        j.known_aba += 1;
                                        tainted[r] = true;
                                    }
                                    if *rec != rec_of(p) {
                                        fail(&mut j, format!("reader {} call {}: returned {:?} but the words copied belong to publication {} = {:?}", r, s.op, rec, p, rec_of(p)));
                                    }
                                    if ordinal(p).is_none() {
                                        fail(&mut j, format!("reader {} call {}: accepted publication {} which never completed (half-written record)", r, s.op, p));
                                    }
                                    if want_c03 && !tainted[r] && (p as i64) < last_p[r] {
                                        fail(&mut j, format!("reader {} call {}: returned publication {} after having returned publication {} (went back in time)", r, s.op, p, last_p[r]));
                                    }
                                    last_p[r] = p as i64;
                                    last_rec[r] = *rec;
                                    cached_gen[r] = s.stats.last_generation.unwrap_or(0);
                                }
                            }
                            if want_c18 && must_serve_cache {
                                fail(
                                    &mut j,
                                    format!(
                                        "reader {} call {}: first values read were version {:?} generation {:?} (cached generation {}): the call must answer from its previous snapshot without touching the record, but it copied the record {} time(s)",
                                        r, s.op, first_v, first_g, cached_gen[r], s.stats.data_reads
                                    ),
                                );
                            }
                        }
                        if want_c18 && must_serve_cache && s.stats.loads > 2 {
                            fail(&mut j, format!("reader {} call {}: {} shared loads although the first values read (version {:?}, generation {:?}) require an immediate answer from the cache", r, s.op, s.stats.loads, first_v, first_g));
                        }
                        // C11 seen from a client: no update in flight (writer idle or cleanly gone after a
                        // completed publication), yet the generation is odd or zero
                        if want_c03 && s.kind == 1 && s.writer_idle_after_publication {
                            if let Some(g) = first_g {
                                if g & 1 == 1 || g == 0 {
                                    fail(&mut j, format!("reader {} call {}: the writer is idle after a completed publication, yet the generation reads {} (odd or zero): clients are stuck on their cached record", r, s.op, g));
                                }
                            }
                        }
                        // C03 (3): catch-up when quiesced
                        if want_c03 && s.kind == 1 && !tainted[r] {
                            j.qsnap_checked += 1;
                            let newest = s.completed_at_start.or(if run.init_valid { Some(0) } else { None });
                            let file_gen_even = s.stats.first_generation.map(|g| g & 1 == 0 && g != 0).unwrap_or(false);
                            if let (Some(n), true) = (newest, file_gen_even) {
                                let got = last_p[r];
                                if got != n as i64 {
                                    // documented exemption: slept through a multiple of 32767 completed publications
                                    let exempt = match (if got >= 0 { ordinal(got as u32) } else { None }, ordinal(n)) {
                                        (Some(a), Some(b)) => b > a && (b - a) % 32767 == 0,
                                        _ => false,
                                    };
                                    if exempt {
                                        j.collision_exempt = true;
                                    } else {
                                        fail(
                                            &mut j,
                                            format!(
                                                "reader {} call {}: no update in flight and all earlier writes visible, yet snapshot() returned publication {} instead of the most recently completed publication {} (generation read {:?}, cached generation {})",
                                                r, s.op, got, n, first_g, cached_gen[r]
                                            ),
                                        );
                                    }
                                }
                            }
                        }
                    }
                    SnapResult::Err(e) => {
                        j.budget_exhausted_calls += 1;
                        if s.stats.data_reads == 0 {
                            fail(&mut j, format!("reader {} call {}: snapshot() failed with {} without having attempted a copy", r, s.op, e));
                        }
                    }
                }
                if s.accesses > ACCESS_BUDGET {
                    fail(&mut j, format!("reader {} call {}: {} shared accesses in one call", r, s.op, s.accesses));
                }
            }
            _ => {}
        }
    }
    if run.completed.len() > 32766 {
        j.wrap_crossed = true;
    }
    j
}

// ------------------------------------------------------------------------------------------------
// strategies

fn reads_strategy(max: usize) -> BoxedStrategy<Vec<u16>> {
    prop_oneof![
        2 => Just(vec![]),                                                          // sequentially consistent
        3 => prop::collection::vec(prop_oneof![6 => Just(0u16), 4 => any::<u16>()], 0..max),
        3 => prop::collection::vec(prop_oneof![2 => Just(0u16), 8 => any::<u16>()], 0..max), // mostly stale
        1 => prop::collection::vec(Just(u16::MAX), 0..max),                          // always the oldest admissible
    ]
    .boxed()
}

fn policy_strategy() -> BoxedStrategy<Policy> {
    prop_oneof![
        3 => Just(Policy::Random),
        2 => (prop::collection::vec(any::<u8>(), 0..6), prop::collection::vec(any::<u16>(), 0..4)).prop_map(|(prio, changes)| Policy::Pct { prio, changes }),
        2 => prop::collection::vec(1u8..12, 1..6).prop_map(|lens| Policy::Burst { lens }),
    ]
    .boxed()
}

fn init_strategy() -> BoxedStrategy<InitFile> {
    prop_oneof![
        3 => Just(InitFile::Missing),
        2 => Just(InitFile::Valid { gen: 2 }),
        2 => prop_oneof![Just(65532u16), Just(65534u16), Just(65530u16)].prop_map(|gen| InitFile::Valid { gen }),
        1 => (1u16..=u16::MAX).prop_map(|gen| InitFile::Valid { gen }),
        1 => prop_oneof![Just(3u16), Just(65535u16), Just(65533u16), Just(1u16)].prop_map(|gen| InitFile::Valid { gen }),
    ]
    .boxed()
}

fn c02_strategy() -> BoxedStrategy<ConcCase> {
    let reader = prop::collection::vec(prop_oneof![8 => Just(ROp::Snap), 1 => Just(ROp::Open), 1 => (0u32..4).prop_map(ROp::WaitPubs)], 1..5);
    (
        init_strategy(),
        1u32..7,
        prop::collection::vec(reader, 1..4),
        policy_strategy(),
        prop::collection::vec(any::<u16>(), 0..300),
        reads_strategy(120),
    )
        .prop_map(|(init, pubs, readers, policy, sched, reads)| ConcCase {
            init,
            lives: vec![Life {
                ops: vec![WOp::Publish(pubs)],
                stop_at: None,
                stall: false,
            }],
            readers,
            policy,
            sched,
            reads,
        })
        .prop_flat_map(|c| {
            // one case in 200: the writer is never scheduled again from some point on (a stalled or
            // dead writer is one of the schedules C02 quantifies over)
            // half of those: the daemon is then restarted on the segment it left behind and publishes
            // again, readers running throughout (a restart is one more schedule of the same writer)
            (Just(c), prop_oneof![199 => Just((None, 0u32)), 1 => (5u32..60, 0u32..3).prop_map(|(s, r)| (Some(s), r))])
        })
        .prop_map(|(mut c, (stop, restart))| {
            c.lives[0].stop_at = stop;
            if restart > 0 {
                c.lives.push(Life {
                    ops: vec![WOp::Publish(restart)],
                    stop_at: None,
                    stall: false,
                });
            }
            c
        })
        .boxed()
}

fn conc_labels(v: &mut Verdict, case: &ConcCase, j: &Judged, run: &ConcRun) {
    if j.overlapped {
        v.label("copy-overlapped-update");
    }
    if j.stale {
        v.label("stale-read");
    } else {
        v.label("sequentially-consistent");
    }
    for k in &j.torn_seen {
        v.label(match k {
            1 => "torn-at-word-1",
            2 => "torn-at-word-2",
            3 => "torn-at-word-3",
            4 => "torn-at-word-4",
            5 => "torn-at-word-5",
            _ => "torn-at-word-6",
        });
    }
    if j.retries_seen > 0 {
        v.label("reader-retried");
    }
    match case.policy {
        Policy::Random => v.label("policy-random"),
        Policy::Pct { .. } => v.label("policy-pct"),
        Policy::Burst { .. } => v.label("policy-burst"),
        Policy::Dfs { .. } => v.label("policy-systematic"),
    }
    if matches!(case.init, InitFile::Valid { gen } if gen >= 65530) {
        v.label("start-near-wrap");
    }
    if matches!(case.init, InitFile::Valid { gen } if gen & 1 == 1) {
        v.label("start-odd-generation");
    }
    if j.cache_served_on_odd_or_zero > 0 {
        v.label("cache-served-on-odd-zero-or-same-generation");
    }
    if j.reader_survived_restart {
        v.label("reader-survived-restart");
    }
    if j.known_aba > 0 {
        v.label("excluded:known-finding-generation-wrap-within-one-call");
    }
    if run.events.iter().any(|e| matches!(e, Event::LifeEnd { crashed: true, .. })) {
        v.label("writer-crashed");
    }
    v.sub_evals += j.calls;
}

pub struct C02;

impl Property for C02 {
    type Case = ConcCase;
    const ID: &'static str = "C02";
    fn rule() -> String {
        "cases = initial segment (missing | valid with generation g0, g0 biased to 2, 65530..65534 and odd values) x 1..6 publications of word-wise distinguishable records (in one case out of 200 the writer is never scheduled again from a generated point on) x 1..3 readers with 1..4 operations (snapshot, reopen, wait for k publications) x scheduling policy (uniform random from a choice stream | PCT priorities with <= 3 change points | bursts) x read-choice stream (which admissible message each load returns: all-newest = SC, mixed, mostly stale, always oldest). Every atomic load/store, every 8-byte word of the record copy and every file operation is a scheduling point of the real ShmWriter/ShmReader code. Oracle: the seven words of every accepted copy have one provenance (a completed publication or the valid initial record) and equal that record; a call that copied nothing returns its previous snapshot. Non-trivial: a reader's call overlapped writer accesses. Distinct = distinct case encoding.".into()
    }
    fn assumptions() -> Vec<String> {
        vec![
            "memory model: promise-free release/acquire view machine (sound for C11: produces only allowed executions; no load-buffering shapes); record words treated as relaxed 8-byte atomics".into(),
            "a thread that enters the kernel (open/mmap) sees everything written before".into(),
        ]
    }
    fn cases(tier: Tier) -> u64 {
        match tier {
            Tier::Quick => 600_000,
            Tier::Thorough => 20_000_000,
        }
    }
    fn strategy(_tier: Tier) -> BoxedStrategy<ConcCase> {
        c02_strategy()
    }
    fn init() {
        install_hooks();
    }
    fn check(case: &ConcCase, env: &mut Env) -> Verdict {
        let mut v = Verdict::default();
        let run = run_conc(case, env, &RunOpts { probe_gen: false, late_reader: false });
        let j = judge(&run, case, false, false);
        conc_labels(&mut v, case, &j, &run);
        v.nontrivial = j.overlapped;
        if let Some(m) = j.fail {
            v.fail(m);
        }
        v
    }
    fn floors() -> Vec<(&'static str, f64)> {
        vec![("copy-overlapped-update", 0.3), ("stale-read", 0.1), ("sequentially-consistent", 0.1), ("reader-retried", 0.02)]
    }
    fn from_fuzz_bytes(d: &[u8]) -> Option<ConcCase> {
        // one writer life without a stop point: the pure C02 scope
        let mut c = crate::fuzzdec::decode_conc_case(d);
        c.lives.truncate(1);
        c.lives[0].stop_at = None;
        Some(c)
    }
    fn extra(tier: Tier, env: &mut Env, _seed: u64) -> Extra {
        // probe of the known finding C02/generation-wrap-within-one-call: the reader copies three
        // words, the writer completes exactly 32767 updates (generation back to the same value), the
        // reader copies the rest and accepts the blend. Sequentially consistent.
        let mut ex = Extra::default();
        let mut sched = vec![];
        // threads: [reader, writer]; choice 0 -> reader, 65535 -> writer
        for _ in 0..6 {
            sched.push(0u16); // CallStart, version, generation, words 0..2
        }
        for _ in 0..40 {
            sched.push(u16::MAX); // writer: start-up and the burst
        }
        let case = ConcCase {
            init: InitFile::Valid { gen: 2 },
            lives: vec![Life {
                ops: vec![WOp::Skip(32767)],
                stop_at: None,
                stall: false,
            }],
            readers: vec![vec![ROp::Snap]],
            policy: Policy::Random,
            sched,
            reads: vec![],
        };
        let run = run_conc(&case, env, &RunOpts { probe_gen: false, late_reader: false });
        let j = judge(&run, &case, false, false);
        ex.evaluations = 1;
        if j.known_aba > 0 {
            println!("KNOWN-FINDING: property=C02 a reader suspended in the middle of its record copy while the daemon completes exactly 32767 updates (16-bit generation back to the same value) accepts a blend of the old and the new record");
            ex.label("known-finding-probe-reproduced");
        } else if let Some(m) = j.fail {
            ex.failure = Some((m, serde_json::to_value(&case).unwrap()));
        } else {
            ex.label("known-finding-probe-no-longer-reproduces");
        }
        ex.samples.push(serde_json::json!({"known_finding_probe": case}));
        // systematic exploration of the smallest scope (1 update x 1 reader call): all interleavings,
        // sequentially consistent and with up to `k` stale loads per execution
        let (k, pre, cap) = match tier {
            Tier::Quick => (1usize, 3usize, 1_000_000u64),
            Tier::Thorough => (2usize, 4usize, 8_000_000u64),
        };
        for g in [2u16, 65534] {
            let r = dfs_parallel(g, if g == 2 { k } else { 0 }, pre, cap);
            ex.evaluations += r.executions;
            *ex.labels.entry("systematic:executions".into()).or_insert(0) += r.executions;
            *ex.labels.entry("systematic:copy-overlapped-update".into()).or_insert(0) += r.overlapped;
            *ex.labels.entry("systematic:with-stale-read".into()).or_insert(0) += r.with_stale_read;
            *ex.labels.entry("systematic:reader-retried".into()).or_insert(0) += r.retried;
            ex.extra_coverage.insert(format!("systematic_scope_gen{}", g), serde_json::json!({"executions": r.executions, "complete": r.complete, "max_stale_loads": if g == 2 { k } else { 0 }, "max_preemptions": pre}));
            if let Some(c) = r.sample {
                if ex.samples.len() < 3 {
                    ex.samples.push(serde_json::json!({"systematic_execution_with_retry_and_stale_load": c}));
                }
            }
            if r.complete && g == 2 {
                ex.exhaustive_note = Some(format!("smallest scope (valid segment, 1 update, 1 reader, 1 call; start-up and open uninterleaved): every schedule of the writer's 11 accesses and the reader's accesses with at most {} pre-emptions x every choice of admissible message per load with at most {} stale loads per execution", pre, k));
            }
            if let Some((m, c)) = r.failure {
                if ex.failure.is_none() {
                    ex.failure = Some((m, serde_json::to_value(&c).unwrap()));
                }
            }
        }
        ex
    }
    fn max_shrink_iters(_t: Tier) -> u32 {
        3000
    }
}

// ------------------------------------------------------------------------------------------------
// systematic exploration of the smallest C02 scope

#[derive(Default, Debug, Clone)]
pub struct DfsReport {
    pub executions: u64,
    pub overlapped: u64,
    pub with_stale_read: u64,
    pub retried: u64,
    pub complete: bool,
    pub failure: Option<(String, ConcCase)>,
    pub sample: Option<ConcCase>,
}

/// Depth-first enumeration of all executions of `base` (Policy::Dfs) whose first decisions are
/// `prefix`: every interleaving of the writer's update with the readers' calls, and every choice of
/// admissible message per load with at most `max_stale` non-newest choices per execution.
pub fn dfs_explore(env: &mut Env, base: &ConcCase, prefix: &[u8], max_stale: usize, max_preempt: usize, max_exec: u64) -> DfsReport {
    let mut rep = DfsReport::default();
    let mut script: Vec<u8> = prefix.to_vec();
    let opts = RunOpts { probe_gen: false, late_reader: false };
    loop {
        let case = ConcCase {
            policy: Policy::Dfs { script: script.clone() },
            ..base.clone()
        };
        let run = run_conc(&case, env, &opts);
        let j = judge(&run, &case, true, false);
        rep.executions += 1;
        if j.overlapped {
            rep.overlapped += 1;
        }
        if j.stale {
            rep.with_stale_read += 1;
        }
        if j.retries_seen > 0 {
            rep.retried += 1;
            if rep.sample.is_none() && j.stale {
                rep.sample = Some(case.clone());
            }
        }
        if let Some(m) = j.fail {
            rep.failure = Some((m, case));
            return rep;
        }
        // next script in depth-first order
        let d = &run.decisions;
        let mut i = d.len();
        let mut next: Option<Vec<u8>> = None;
        while i > prefix.len() {
            i -= 1;
            let (kind, arity, chosen, costly) = d[i];
            if chosen + 1 < arity {
                if costly {
                    // a non-default choice here is a stale load (kind 1) or a pre-emption (kind 0)
                    let used = d[..i].iter().filter(|x| x.0 == kind && x.3 && x.2 > 0).count();
                    let limit = if kind == 1 { max_stale } else { max_preempt };
                    if used + 1 > limit {
                        continue;
                    }
                }
                let mut v: Vec<u8> = d[..i].iter().map(|x| x.2).collect();
                v.push(chosen + 1);
                next = Some(v);
                break;
            }
        }
        match next {
            Some(v) => script = v,
            None => {
                rep.complete = true;
                return rep;
            }
        }
        if rep.executions >= max_exec {
            return rep;
        }
    }
}

/// All reachable decision prefixes of length `depth` (within the bounds), in depth-first order.
fn dfs_prefixes(env: &mut Env, base: &ConcCase, depth: usize, max_stale: usize, max_preempt: usize) -> Vec<Vec<u8>> {
    let mut out: Vec<Vec<u8>> = vec![];
    let mut script: Vec<u8> = vec![];
    let opts = RunOpts { probe_gen: false, late_reader: false };
    loop {
        let case = ConcCase {
            policy: Policy::Dfs { script: script.clone() },
            ..base.clone()
        };
        let run = run_conc(&case, env, &opts);
        let d = &run.decisions;
        let n = d.len().min(depth);
        out.push(d[..n].iter().map(|x| x.2).collect());
        let mut i = n;
        let mut next: Option<Vec<u8>> = None;
        while i > 0 {
            i -= 1;
            let (kind, arity, chosen, costly) = d[i];
            if chosen + 1 < arity {
                if costly {
                    let used = d[..i].iter().filter(|x| x.0 == kind && x.3 && x.2 > 0).count();
                    let limit = if kind == 1 { max_stale } else { max_preempt };
                    if used + 1 > limit {
                        continue;
                    }
                }
                let mut v: Vec<u8> = d[..i].iter().map(|x| x.2).collect();
                v.push(chosen + 1);
                next = Some(v);
                break;
            }
        }
        match next {
            Some(v) => script = v,
            None => return out,
        }
        if out.len() > 100_000 {
            return out;
        }
    }
}

/// Part `k` of `nparts` of the bounded exploration: the tree is cut at depth 8 and the sub-trees are
/// dealt out round-robin.
pub fn dfs_explore_part(env: &mut Env, base: &ConcCase, max_stale: usize, max_preempt: usize, max_exec: u64, k: u64, nparts: u64) -> DfsReport {
    let prefixes = dfs_prefixes(env, base, 8, max_stale, max_preempt);
    let mut total = DfsReport { complete: true, ..Default::default() };
    for (idx, pre) in prefixes.iter().enumerate() {
        if idx as u64 % nparts.max(1) != k % nparts.max(1) {
            continue;
        }
        let left = max_exec.saturating_sub(total.executions);
        if left == 0 {
            total.complete = false;
            break;
        }
        let r = dfs_explore(env, base, pre, max_stale, max_preempt, left);
        total.executions += r.executions;
        total.overlapped += r.overlapped;
        total.with_stale_read += r.with_stale_read;
        total.retried += r.retried;
        total.complete &= r.complete;
        if total.sample.is_none() {
            total.sample = r.sample;
        }
        if r.failure.is_some() {
            total.failure = r.failure;
            total.complete = false;
            break;
        }
    }
    total
}

/// Smallest scope: a valid segment, one update, one reader making one call.
pub fn smallest_scope(start_gen: u16) -> ConcCase {
    ConcCase {
        init: InitFile::Valid { gen: start_gen },
        lives: vec![Life {
            ops: vec![WOp::Publish(1)],
            stop_at: None,
            stall: false,
        }],
        readers: vec![vec![ROp::Open, ROp::Snap]],
        policy: Policy::Dfs { script: vec![] },
        sched: vec![],
        reads: vec![],
    }
}

/// Child-process entry: explore one of the 16 sub-trees and print the report as JSON.
///   vcheck c02-dfs <k> <start-gen> <max-stale> <max-preemptions> <cap> <parts>
pub fn dfs_child(args: &[String]) -> i32 {
    install_hooks();
    crate::runner::quiet_panics();
    let k: u8 = args.first().and_then(|s| s.parse().ok()).unwrap_or(0);
    let gen: u16 = args.get(1).and_then(|s| s.parse().ok()).unwrap_or(2);
    let max_stale: usize = args.get(2).and_then(|s| s.parse().ok()).unwrap_or(0);
    let max_preempt: usize = args.get(3).and_then(|s| s.parse().ok()).unwrap_or(3);
    let cap: u64 = args.get(4).and_then(|s| s.parse().ok()).unwrap_or(1_000_000);
    let nparts: u8 = args.get(5).and_then(|s| s.parse().ok()).unwrap_or(1);
    let dir = std::path::PathBuf::from(format!("/dev/shm/clockbound-verif-dfs.{}", std::process::id()));
    let mut env = Env::new(&dir, Tier::Quick, 200 + k as usize);
    // partition: the first scheduler decision (which thread starts) and, below it, the position of
    // the first pre-emption are not needed: each child simply takes every nparts-th execution
    let _ = k;
    let r = dfs_explore_part(&mut env, &smallest_scope(gen), max_stale, max_preempt, cap, k as u64, nparts as u64);
    let _ = std::fs::remove_dir_all(&dir);
    println!(
        "{}",
        serde_json::json!({
            "executions": r.executions, "overlapped": r.overlapped, "with_stale_read": r.with_stale_read, "retried": r.retried,
            "complete": r.complete,
            "failure": r.failure.as_ref().map(|(m, c)| serde_json::json!({"reason": m, "case": c})),
            "sample": r.sample,
        })
    );
    0
}

/// Run the exploration split over 16 processes by the first four scheduler decisions (processes,
/// not threads: mmap/munmap of 16 threads in one address space serialise on the kernel's mm lock).
pub fn dfs_parallel(gen: u16, max_stale: usize, max_preempt: usize, max_exec_per_child: u64) -> DfsReport {
    let exe = std::env::current_exe().unwrap_or_else(|_| std::path::PathBuf::from("/verif/target/release/vcheck"));
    let children: Vec<_> = (0..16u8)
        .filter_map(|k| {
            std::process::Command::new(&exe)
                .arg("c02-dfs")
                .arg(k.to_string())
                .arg(gen.to_string())
                .arg(max_stale.to_string())
                .arg(max_preempt.to_string())
                .arg(max_exec_per_child.to_string())
                .arg("16")
                .stdout(std::process::Stdio::piped())
                .stderr(std::process::Stdio::null())
                .spawn()
                .ok()
        })
        .collect();
    let mut total = DfsReport { complete: children.len() == 16, ..Default::default() };
    for ch in children {
        tick();
        let out = ch.wait_with_output();
        let v: serde_json::Value = out.ok().and_then(|o| serde_json::from_slice(&o.stdout).ok()).unwrap_or(serde_json::Value::Null);
        if v.is_null() {
            total.complete = false;
            continue;
        }
        total.executions += v["executions"].as_u64().unwrap_or(0);
        total.overlapped += v["overlapped"].as_u64().unwrap_or(0);
        total.with_stale_read += v["with_stale_read"].as_u64().unwrap_or(0);
        total.retried += v["retried"].as_u64().unwrap_or(0);
        total.complete &= v["complete"].as_bool().unwrap_or(false);
        if total.failure.is_none() && !v["failure"].is_null() {
            if let Ok(c) = serde_json::from_value::<ConcCase>(v["failure"]["case"].clone()) {
                total.failure = Some((v["failure"]["reason"].as_str().unwrap_or("").to_string(), c));
            }
        }
        if total.sample.is_none() && !v["sample"].is_null() {
            total.sample = serde_json::from_value::<ConcCase>(v["sample"].clone()).ok();
        }
    }
    total
}

// ------------------------------------------------------------------------------------------------
// C03

pub struct C03;

fn c03_strategy() -> BoxedStrategy<ConcCase> {
    let reader = prop::collection::vec(
        prop_oneof![5 => Just(ROp::Snap), 4 => Just(ROp::QSnap), 1 => Just(ROp::Open), 2 => (0u32..8).prop_map(ROp::WaitPubs)],
        1..8,
    );
    let wop = prop_oneof![
        8 => (1u32..4).prop_map(WOp::Publish),
        2 => (1u32..6).prop_map(WOp::Skip),
        1 => prop_oneof![Just(32766u32), Just(32767u32), Just(32768u32), Just(65534u32), Just(65535u32)].prop_map(WOp::Skip),
    ];
    (
        init_strategy(),
        prop::collection::vec(wop, 1..5),
        prop::collection::vec(reader, 1..4),
        policy_strategy(),
        prop::collection::vec(any::<u16>(), 0..300),
        reads_strategy(160),
    )
        .prop_map(|(init, ops, readers, policy, sched, reads)| ConcCase {
            init,
            lives: vec![Life { ops, stop_at: None, stall: false }],
            readers,
            policy,
            sched,
            reads,
        })
        .boxed()
}

impl Property for C03 {
    type Case = ConcCase;
    const ID: &'static str = "C03";
    fn rule() -> String {
        "cases = as C02 with longer writer scripts: Publish(1..3) | Skip(n) bursts the readers sleep through, n in 1..5 or {32766, 32767, 32768, 65534, 65535} (reaches the 16-bit wrap and the documented generation collision) x readers with snapshot / quiesced snapshot (writer idle, all earlier writes visible to the reader) / reopen / wait-for-k-publications. Oracle per reader over publication indices (provenance): (1) never older than the previous call's; (2) a quiesced call returns the most recently completed publication, except exactly when the number of publications completed since its cached one is a positive multiple of 32767 (computed from the script); plus C02's oracle. Non-trivial: a reader made >= 2 calls with a publication completed between them.".into()
    }
    fn assumptions() -> Vec<String> {
        C02::assumptions()
    }
    fn cases(tier: Tier) -> u64 {
        match tier {
            Tier::Quick => 60_000,
            Tier::Thorough => 1_500_000,
        }
    }
    fn strategy(_tier: Tier) -> BoxedStrategy<ConcCase> {
        c03_strategy()
    }
    fn init() {
        install_hooks();
    }
    fn check(case: &ConcCase, env: &mut Env) -> Verdict {
        let mut v = Verdict::default();
        let run = run_conc(case, env, &RunOpts { probe_gen: false, late_reader: false });
        let j = judge(&run, case, true, false);
        conc_labels(&mut v, case, &j, &run);
        if j.multi_call_with_pub_between {
            v.label("calls-with-publication-between");
            v.nontrivial = true;
        }
        if j.wrap_crossed {
            v.label("wrap-crossed");
        }
        if j.collision_exempt {
            v.label("collision-exemption-exercised");
        }
        if j.qsnap_checked > 0 {
            v.label("quiesced-call-checked");
        }
        if case.lives.iter().flat_map(|l| &l.ops).any(|o| matches!(o, WOp::Skip(n) if *n > 1)) {
            v.label("skip-gt-1");
        }
        if let Some(m) = j.fail {
            v.fail(m);
        }
        v
    }
    fn floors() -> Vec<(&'static str, f64)> {
        vec![("calls-with-publication-between", 0.2), ("quiesced-call-checked", 0.3), ("wrap-crossed", 0.02)]
    }
    fn max_shrink_iters(_t: Tier) -> u32 {
        1500
    }
    fn extra(_tier: Tier, env: &mut Env, _seed: u64) -> Extra {
        // deterministic probes of the wrap-around neighbourhood: a reader that sleeps through exactly
        // n publications, n in {32766, 32767, 32768}, from even start generations around the wrap
        let mut ex = Extra::default();
        for g0 in [2u16, 4, 65530, 65534] {
            for n in [1u32, 2, 32766, 32767, 32768, 65534] {
                let case = ConcCase {
                    init: InitFile::Valid { gen: g0 },
                    lives: vec![Life {
                        ops: vec![WOp::Publish(1), WOp::Skip(n), WOp::Publish(1)],
                        stop_at: None,
                        stall: false,
                    }],
                    readers: vec![vec![ROp::QSnap, ROp::WaitPubs(1), ROp::QSnap, ROp::WaitPubs(1 + n), ROp::QSnap, ROp::WaitPubs(2 + n), ROp::QSnap]],
                    policy: Policy::Random,
                    sched: vec![],
                    reads: vec![],
                };
                tick();
                let vd = C03::check(&case, env);
                ex.evaluations += 1 + vd.sub_evals;
                ex.label(if n % 32767 == 0 { "probe-collision-distance" } else { "probe-neighbour-distance" });
                ex.nontrivial_hashes.push(hash_str(&serde_json::to_string(&case).unwrap()));
                if n == 32767 && g0 == 65530 {
                    ex.samples.push(serde_json::json!({"wrap_probe": case, "labels": vd.labels}));
                }
                if n % 32767 == 0 && !vd.labels.contains(&"collision-exemption-exercised") && vd.fail.is_none() && ex.failure.is_none() {
                    // not a violation of C03 (the exemption is permitted, not required); recorded only
                    ex.label("collision-distance-caught-up-anyway");
                }
                if let Some(m) = vd.fail {
                    if ex.failure.is_none() {
                        ex.failure = Some((m, serde_json::to_value(&case).unwrap()));
                    }
                }
            }
        }
        ex
    }
}

// ------------------------------------------------------------------------------------------------
// C18

pub struct C18;

fn c18_strategy() -> BoxedStrategy<ConcCase> {
    let reader = prop::collection::vec(
        prop_oneof![6 => Just(ROp::Snap), 2 => Just(ROp::QSnap), 1 => Just(ROp::Open), 1 => (0u32..4).prop_map(ROp::WaitPubs), 2 => (1u32..40).prop_map(ROp::Fire)],
        1..5,
    );
    (
        init_strategy(),
        (1u32..6, prop_oneof![1 => Just(None), 1 => (0u32..70).prop_map(Some)], any::<bool>()),
        prop::collection::vec(reader, 1..3),
        policy_strategy(),
        prop::collection::vec(any::<u16>(), 0..300),
        reads_strategy(160),
    )
        .prop_map(|(init, (pubs, stop_at, stall), readers, policy, sched, reads)| ConcCase {
            init,
            lives: vec![Life {
                ops: vec![WOp::Publish(pubs + 40)],
                stop_at,
                // dead (its mapping, descriptors and locks are gone) or stalled (it keeps them)
                stall: stall && stop_at.is_some(),
            }],
            readers,
            policy,
            sched,
            reads,
        })
        .boxed()
}

fn c18_check(case: &ConcCase, env: &mut Env) -> Verdict {
    let mut v = Verdict::default();
    let run = run_conc(case, env, &RunOpts { probe_gen: false, late_reader: false });
    let j = judge(&run, case, false, true);
    conc_labels(&mut v, case, &j, &run);
    let crashed_inside_update = run.events.iter().any(|e| matches!(e, Event::LifeEnd { crashed: true, gen_after: Some(g), .. } if g & 1 == 1));
    if crashed_inside_update {
        v.label("writer-stopped-inside-update");
    }
    if case.lives.iter().any(|l| l.stall) && run.events.iter().any(|e| matches!(e, Event::LifeEnd { crashed: true, .. })) {
        v.label("writer-stalled-not-dead");
    }
    if j.retries_seen >= 3 {
        v.label("three-or-more-retries");
        v.nontrivial = true;
    }
    if j.budget_exhausted_calls > 0 {
        v.label("retry-budget-exhausted-call-returned-error");
        v.nontrivial = true;
    }
    if crashed_inside_update && j.overlapped {
        v.label("stopped-while-reader-copying");
        v.nontrivial = true;
    }
    if j.cache_served_on_odd_or_zero > 0 && crashed_inside_update {
        v.nontrivial = true;
    }
    if let Some(m) = j.fail {
        v.fail(m);
    }
    v
}

impl Property for C18 {
    type Case = ConcCase;
    const ID: &'static str = "C18";
    fn rule() -> String {
        "cases = as C02 plus: a writer that stops for ever before its n-th scheduling point (n in 0..70: inside start-up, inside any update, between updates), either dead (mapping, descriptors and locks gone) or stalled (it keeps them; half of the stopped writers), and 'under fire' calls during which the writer completes one more update after every copy the reader makes (1..40 rounds generated; 5,000,000 rounds in the enumerated extras: past the 1,000,000-retry budget of the code and past the 2^25-access limit). Oracle per snapshot() call, counted by the shim: if the first version read is 0, or the first generation read is 0, odd or equal to the cached one, the call makes no record copy and at most 2 shared loads and returns its previous snapshot; every call returns within 2^25 (33.5 M) shared accesses (the code's own budget is 10^6 retries x ~10 accesses = 10 M); a failed call must have tried at least one copy; plus C02's no-mixture oracle. Non-trivial: >= 3 retries in a call, or the writer stopped inside an update while a reader call overlapped it, or a call that exhausted the retry budget.".into()
    }
    fn assumptions() -> Vec<String> {
        C02::assumptions()
    }
    fn cases(tier: Tier) -> u64 {
        match tier {
            Tier::Quick => 60_000,
            Tier::Thorough => 1_500_000,
        }
    }
    fn strategy(_tier: Tier) -> BoxedStrategy<ConcCase> {
        c18_strategy()
    }
    fn init() {
        install_hooks();
    }
    fn check(case: &ConcCase, env: &mut Env) -> Verdict {
        c18_check(case, env)
    }
    fn hang_is_violation() -> bool {
        // boundedness of a client call is what C18 claims
        true
    }
    fn case_timeout_s() -> u64 {
        120
    }
    fn floors() -> Vec<(&'static str, f64)> {
        vec![("writer-stopped-inside-update", 0.2), ("writer-stalled-not-dead", 0.1), ("three-or-more-retries", 0.05), ("cache-served-on-odd-zero-or-same-generation", 0.3)]
    }
    fn max_shrink_iters(_t: Tier) -> u32 {
        600
    }
    fn extra(tier: Tier, env: &mut Env, _seed: u64) -> Extra {
        let mut ex = Extra::default();
        // (a) writer dies at every scheduling point of an update while the reader is at every
        //     position of its own call (reader runs k steps first, then the writer up to its stop)
        for stop in 0u32..40 {
            for lead in 0u16..14 {
                if ex.failure.is_some() {
                    break;
                }
                let mut sched = vec![];
                // Random policy with threads [reader, writer]: choice 0 -> reader, 65535 -> writer
                for _ in 0..lead {
                    sched.push(0u16);
                }
                for _ in 0..80 {
                    sched.push(u16::MAX);
                }
                let case = ConcCase {
                    init: InitFile::Valid { gen: 8 },
                    lives: vec![Life {
                        ops: vec![WOp::Publish(3)],
                        stop_at: Some(stop),
                        stall: false,
                    }],
                    readers: vec![vec![ROp::Snap, ROp::Snap, ROp::QSnap]],
                    policy: Policy::Random,
                    sched,
                    reads: vec![],
                };
                tick();
                let vd = c18_check(&case, env);
                ex.evaluations += 1 + vd.sub_evals;
                if vd.nontrivial {
                    ex.nontrivial_hashes.push(hash_str(&serde_json::to_string(&case).unwrap()));
                }
                for l in &vd.labels {
                    if l.starts_with("writer-stopped") || l.starts_with("stopped-while") || l.starts_with("retry-budget") {
                        ex.label(&format!("enumerated:{}", l));
                    }
                }
                if ex.samples.is_empty() && vd.labels.contains(&"retry-budget-exhausted-call-returned-error") {
                    ex.samples.push(serde_json::json!({"dead_writer_case": case, "labels": vd.labels}));
                }
                if let Some(m) = vd.fail {
                    if ex.failure.is_none() {
                        ex.failure = Some((m, serde_json::to_value(&case).unwrap()));
                    }
                }
            }
        }
        // (b) continuous updates: the writer completes an update after every copy, for more rounds
        //     than the retry budget
        let rounds = match tier {
            // 5 000 000 rounds: an implementation whose budget is renewed by the writer's progress
            // would go on past 2^25 accesses; one that gives up after its budget never gets that far
            Tier::Quick => vec![5u32, 5_000_000],
            Tier::Thorough => vec![5u32, 999_999, 1_000_000, 1_000_100, 5_000_000],
        };
        for r in rounds {
            if ex.failure.is_some() {
                break;
            }
            let case = ConcCase {
                init: InitFile::Valid { gen: 2 },
                lives: vec![Life {
                    ops: vec![WOp::Publish(r + 5)],
                    stop_at: None,
                    stall: false,
                }],
                readers: vec![vec![ROp::Snap, ROp::Fire(r), ROp::QSnap]],
                policy: Policy::Random,
                sched: vec![],
                reads: vec![],
            };
            tick();
            let vd = c18_check(&case, env);
            ex.evaluations += 1 + vd.sub_evals;
            ex.nontrivial_hashes.push(hash_str(&serde_json::to_string(&case).unwrap()));
            ex.label(if vd.labels.contains(&"retry-budget-exhausted-call-returned-error") { "under-fire:budget-exhausted" } else { "under-fire:succeeded" });
            if r > 1_000_000 && r < 2_000_000 || (tier == Tier::Quick && r > 1_000_000) {
                ex.samples.push(serde_json::json!({"under_fire_case": case, "labels": vd.labels}));
            }
            if let Some(m) = vd.fail {
                if ex.failure.is_none() {
                    ex.failure = Some((m, serde_json::to_value(&case).unwrap()));
                }
            }
        }
        ex.exhaustive_note = Some("writer stop point 0..39 of a 3-publication life x reader lead 0..13 steps (sequentially consistent, fixed schedule shape)".into());
        ex
    }
}

// ------------------------------------------------------------------------------------------------
// C04: daemon death at any point, and restart

pub struct C04;

fn life_strategy(max_stop: u32) -> BoxedStrategy<Life> {
    (
        prop::collection::vec(prop_oneof![6 => (0u32..3).prop_map(WOp::Publish), 1 => (1u32..4).prop_map(WOp::Skip)], 0..3),
        prop_oneof![2 => Just(None), 5 => (0u32..max_stop).prop_map(Some)],
    )
        .prop_map(|(ops, stop_at)| Life { ops, stop_at, stall: false })
        .boxed()
}

/// A valid segment whose declared size and file length are `n` > 72 bytes (record 0, then padding).
pub fn long_segment(n: usize, gen: u16) -> Vec<u8> {
    let mut b = segment_bytes(&Hdr { size: n as u32, ..Hdr::valid(gen) }, &rec_for(0));
    b.resize(n, 0x5A);
    b
}

fn c04_init_strategy() -> BoxedStrategy<InitFile> {
    prop_oneof![
        3 => Just(InitFile::Missing),
        3 => init_strategy(),
        1 => prop::collection::vec(any::<u8>(), 0..80).prop_map(|bytes| InitFile::Garbage { bytes }),
        1 => (0usize..72).prop_map(|n| InitFile::Garbage { bytes: segment_bytes(&Hdr::valid(6), &rec_for(0))[..n].to_vec() }),
        1 => (73usize..600, prop_oneof![Just(2u16), Just(7u16), Just(65534u16), 1u16..=u16::MAX]).prop_map(|(n, gen)| InitFile::Garbage { bytes: long_segment(n, gen) }), // left by a build with a longer layout
        1 => Just(InitFile::Garbage { bytes: segment_bytes(&Hdr { version: 0, ..Hdr::valid(0) }, &Rec::default()) }), // freshly wiped
        1 => Just(InitFile::Garbage { bytes: segment_bytes(&Hdr { version: 1, ..Hdr::valid(0) }, &Rec::default()) }), // died before the first publication
    ]
    .boxed()
}

fn c04_strategy() -> BoxedStrategy<ConcCase> {
    let reader = prop::collection::vec(
        prop_oneof![5 => Just(ROp::Snap), 3 => Just(ROp::QSnap), 1 => Just(ROp::Open), 2 => (0u32..6).prop_map(ROp::WaitPubs)],
        1..7,
    );
    (
        c04_init_strategy(),
        prop::collection::vec(life_strategy(60), 1..5),
        prop::collection::vec(reader, 1..4),
        policy_strategy(),
        prop::collection::vec(any::<u16>(), 0..300),
        reads_strategy(120),
    )
        .prop_map(|(init, lives, readers, policy, sched, reads)| ConcCase {
            init,
            lives,
            readers,
            policy,
            sched,
            reads,
        })
        .boxed()
}

fn c04_check(case: &ConcCase, env: &mut Env) -> Verdict {
    let mut v = Verdict::default();
    let run = run_conc(case, env, &RunOpts { probe_gen: false, late_reader: true });
    let j = judge(&run, case, true, false);
    conc_labels(&mut v, case, &j, &run);
    let mut fail: Option<String> = j.fail.clone();
    let mut set_fail = |m: String| {
        if fail.is_none() {
            fail = Some(m);
        }
    };
    // (c) in-place takeover of a usable segment; (e) generation never back to 0 once usable
    let mut ever_usable = false;
    let mut usable_len = 0usize;
    let mut life_start: Option<(usize, bool, u64, Vec<u8>)> = None;
    let mut last_life_completed_pub = false;
    let mut pubs_seen = 0usize;
    let mut crash_inside_new = false;
    let mut crash_inside_write = false;
    for ev in &run.events {
        match ev {
            Event::LifeStart { life, usable_before, ino_before, bytes_before } => {
                if *usable_before {
                    if !ever_usable {
                        usable_len = bytes_before.len();
                    }
                    ever_usable = true;
                }
                life_start = Some((*life, *usable_before, *ino_before, bytes_before.clone()));
            }
            Event::LifeReady { life, ino_after, bytes_after } => {
                if let Some((l, usable, ino_b, bytes_b)) = &life_start {
                    if l == life && *usable {
                        v.label("restart-on-usable-segment");
                        if ino_after != ino_b {
                            set_fail(format!("life {}: a usable segment was re-created at start-up (inode {} -> {}): attached clients keep the old file and never see updates", life, ino_b, ino_after));
                        }
                        if bytes_after.len() != bytes_b.len() {
                            set_fail(format!("life {}: a usable segment changed length at start-up ({} -> {} bytes)", life, bytes_b.len(), bytes_after.len()));
                        } else {
                            // identical apart from the version field being rewritten (bytes 12..14)
                            let mut a = bytes_after.clone();
                            let mut b = bytes_b.clone();
                            if a.len() >= 14 {
                                a[12] = 0;
                                a[13] = 0;
                                b[12] = 0;
                                b[13] = 0;
                            }
                            if a != b {
                                set_fail(format!("life {}: start-up modified a usable segment in place (before {:?} after {:?})", life, &bytes_b[..bytes_b.len().min(24)], &bytes_after[..bytes_after.len().min(24)]));
                            }
                            if bytes_after.len() >= 14 && bytes_after[12..14] != bytes_b[12..14] {
                                set_fail(format!("life {}: start-up changed the version of a usable segment", life));
                            }
                        }
                    } else if l == life {
                        v.label("restart-on-unusable-segment");
                    }
                }
            }
            Event::LifeEnd { life, crashed, stop_name, gen_after, version_after, file_len, .. } => {
                let completed_now = run.completed.len();
                let _ = completed_now;
                if *crashed {
                    match stop_name.as_deref() {
                        Some(n) if n.starts_with("wipe:") => {
                            v.label("crash-inside-wipe");
                            crash_inside_new = true;
                        }
                        Some(n) if n.starts_with("new:") || n.starts_with("reader:") => {
                            v.label("crash-inside-new");
                            crash_inside_new = true;
                        }
                        _ => {}
                    }
                    if gen_after.map(|g| g & 1 == 1).unwrap_or(false) {
                        v.label("crash-inside-update");
                        crash_inside_write = true;
                    }
                }
                if ever_usable {
                    if *file_len < usable_len {
                        set_fail(format!("life {}: a segment that was usable ({} bytes) has been emptied or truncated to {} bytes", life, usable_len, file_len));
                    }
                    if *gen_after == Some(0) || *version_after == Some(0) {
                        set_fail(format!("life {}: a segment that was usable now has version {:?} generation {:?}", life, version_after, gen_after));
                    }
                }
                let _ = pubs_seen;
                pubs_seen = run.completed.len();
                last_life_completed_pub = false;
            }
            _ => {}
        }
    }
    let _ = last_life_completed_pub;
    if case.lives.len() >= 2 {
        v.label("restarted");
    }
    if (crash_inside_new || crash_inside_write) && !case.readers.is_empty() {
        v.nontrivial = true;
    }
    // (d)/(b): after everything, a brand-new client
    let final_verdict = reference_open_verdict(&run.final_bytes);
    let any_completed = !run.completed.is_empty();
    if any_completed && final_verdict != OpenVerdict::Ok {
        set_fail(format!("{} publications completed, yet the file is not a valid segment afterwards ({:?}, {} bytes)", run.completed.len(), final_verdict, run.final_bytes.len()));
    }
    if let Some((open, snap)) = &run.late {
        match (final_verdict.clone(), open) {
            (OpenVerdict::Ok, Err(e)) => set_fail(format!("a new client cannot attach to a valid segment after the run: {}", e)),
            (OpenVerdict::Ok, Ok(())) => {
                v.label("late-client-attached");
                let gen = if run.final_bytes.len() >= 16 { Hdr::decode(&run.final_bytes[..16]).generation } else { 0 };
                if gen & 1 == 0 && gen != 0 {
                    let want = match run.completed.last() {
                        Some(p) => Some(rec_for(*p)),
                        None if run.init_valid => Some(run.init_rec),
                        None => None,
                    };
                    // the last *started* publication may be incomplete only if the generation is odd
                    if let (Some(w), Some(SnapResult::Ok(got))) = (want, snap) {
                        if *got != w {
                            set_fail(format!("a new client read {:?} but the most recently completed publication is {:?}", got, w));
                        }
                    }
                    if let Some(SnapResult::Err(e)) = snap {
                        set_fail(format!("a new client attached but snapshot() failed: {}", e));
                    }
                }
            }
            (_, Ok(())) => set_fail(format!("a new client attached to a file the reference validator rejects ({:?})", final_verdict)),
            _ => {}
        }
    }
    if let Some(m) = fail {
        v.fail(m);
    }
    v
}

impl Property for C04 {
    type Case = ConcCase;
    const ID: &'static str = "C04";
    const LEVEL: &'static str = "fault_enumeration";
    fn rule() -> String {
        "cases = initial file (missing | valid, generation even/odd/near the wrap | garbage | truncated valid file | freshly wiped | initialised but never published) x 1..4 successive writer lives, each = start-up (ShmWriter::new incl. probe, wipe, mmap, version store) + publications + a stop point 'die right before scheduling point n' (n in 0..60 covers every file operation of wipe, every header store, every record word, both generation stores) or a clean exit x 1..3 readers (snapshot, quiesced snapshot, reopen, wait) attached before/during/after x scheduling policy x read choices. Enumerated in addition (exhaustive for that sub-domain): every stop point of the 1st and of the 2nd life x start state in {missing, valid-even, valid-odd}. Oracle: C02 (complete records only) and C03 (publication order, catch-up when quiesced) across lives; a usable segment is taken over in place (same inode, same bytes apart from the version rewrite, never shorter than 72 bytes, version/generation never 0 again); no simulated SIGBUS; once any publication completed the file is valid and a brand-new client attaches and reads the latest completed publication. Non-trivial: a life ended inside new/wipe/write with at least one reader in the case.".into()
    }
    fn assumptions() -> Vec<String> {
        let mut a = C02::assumptions();
        a.push("a crash is modelled as the writer thread stopping between two scheduling points; destructors only munmap/close".into());
        a
    }
    fn cases(tier: Tier) -> u64 {
        match tier {
            Tier::Quick => 100_000,
            Tier::Thorough => 3_000_000,
        }
    }
    fn strategy(_tier: Tier) -> BoxedStrategy<ConcCase> {
        c04_strategy()
    }
    fn init() {
        install_hooks();
    }
    fn check(case: &ConcCase, env: &mut Env) -> Verdict {
        c04_check(case, env)
    }
    fn from_fuzz_bytes(d: &[u8]) -> Option<ConcCase> {
        Some(crate::fuzzdec::decode_conc_case(d))
    }
    fn floors() -> Vec<(&'static str, f64)> {
        vec![("crash-inside-update", 0.15), ("crash-inside-wipe", 0.05), ("restart-on-usable-segment", 0.2), ("restart-on-unusable-segment", 0.1), ("reader-survived-restart", 0.1), ("late-client-attached", 0.3)]
    }
    fn max_shrink_iters(_t: Tier) -> u32 {
        2000
    }
    fn extra(_tier: Tier, env: &mut Env, _seed: u64) -> Extra {
        let mut ex = Extra::default();
        let inits = [InitFile::Missing, InitFile::Valid { gen: 10 }, InitFile::Valid { gen: 11 }, InitFile::Valid { gen: 65534 }, InitFile::Garbage { bytes: long_segment(400, 10) }];
        let mut stop_names: std::collections::BTreeSet<String> = Default::default();
        for init in &inits {
            // length of a life in scheduling points, from a dry run
            for second in [false, true] {
                for stop in 0u32..48 {
                    let lives = if second {
                        vec![
                            Life { ops: vec![WOp::Publish(2)], stop_at: None, stall: false },
                            Life { ops: vec![WOp::Publish(2)], stop_at: Some(stop), stall: false },
                            Life { ops: vec![WOp::Publish(1)], stop_at: None, stall: false },
                        ]
                    } else {
                        vec![
                            Life { ops: vec![WOp::Publish(2)], stop_at: Some(stop), stall: false },
                            Life { ops: vec![WOp::Publish(2)], stop_at: None, stall: false },
                        ]
                    };
                    for sched_shape in 0..3u8 {
                        if ex.failure.is_some() {
                            break;
                        }
                        let sched: Vec<u16> = match sched_shape {
                            0 => vec![],                                                           // readers first
                            1 => (0..200).map(|i| if i % 2 == 0 { 0 } else { u16::MAX }).collect(), // alternate
                            _ => (0..200).map(|i| if i % 5 == 0 { 0 } else { u16::MAX }).collect(), // writer mostly
                        };
                        let case = ConcCase {
                            init: init.clone(),
                            lives: lives.clone(),
                            readers: vec![vec![ROp::Snap, ROp::Snap, ROp::QSnap, ROp::Snap, ROp::WaitPubs(3), ROp::QSnap]],
                            policy: Policy::Random,
                            sched,
                            reads: vec![],
                        };
                        tick();
                        let vd = c04_check(&case, env);
                        ex.evaluations += 1 + vd.sub_evals;
                        if vd.nontrivial {
                            ex.nontrivial_hashes.push(hash_str(&serde_json::to_string(&case).unwrap()));
                        }
                        for l in &vd.labels {
                            if l.starts_with("crash-") {
                                stop_names.insert(l.to_string());
                                ex.label(&format!("enumerated:{}", l));
                            }
                        }
                        if ex.samples.len() < 2 && vd.labels.contains(&"crash-inside-wipe") {
                            ex.samples.push(serde_json::json!({"enumerated_case": case, "labels": vd.labels}));
                        }
                        if let Some(m) = vd.fail {
                            if ex.failure.is_none() {
                                ex.failure = Some((m, serde_json::to_value(&case).unwrap()));
                            }
                        }
                    }
                }
            }
        }
        ex.exhaustive_note = Some("stop point 0..47 (covers all ~15 scheduling points of start-up incl. wipe and all 10 of each of two updates) of the 1st life and of the 2nd life x start state {missing, valid gen 10, valid odd gen 11, valid gen 65534} x 3 schedule shapes, sequentially consistent".into());
        ex
    }
}

// ------------------------------------------------------------------------------------------------
// C11: generation field, as seen by a third-party observer

pub struct C11;

#[derive(Clone, Debug, Serialize, Deserialize, PartialEq)]
pub struct GenCase {
    /// generation in the (valid) file the history starts from; 0 = fresh file created by the writer
    pub start: u16,
    /// history: true = completed update, false = update interrupted at a record word then restart
    pub history: Vec<(bool, u8)>,
}

/// Run one history; returns Err(message) on violation. Observations: raw u16 at byte 14 of the file.
fn c11_run(case: &GenCase, env: &mut Env) -> Result<(u64, bool), String> {
    install_hooks();
    let mut evals = 0u64;
    let mut saw_wrap = false;
    let path = env.fresh_path("gen-seg");
    let _ = std::fs::remove_file(&path);
    if case.start != 0 {
        std::fs::write(&path, segment_bytes(&Hdr::valid(case.start), &rec_for(0))).unwrap();
    }
    let read_gen = || crate::layout::read_generation(&path);
    let mut published_to = case.start != 0; // a valid file has been published to
    let mut prev_idle: Option<u16> = if case.start != 0 { Some(case.start) } else { None };
    let mut idx = 0u32;
    let mut pos = 0usize;
    while pos < case.history.len() {
        // one writer life: consecutive steps until (and including) an interrupted one
        let mut life_ops = vec![];
        let mut stop_word: Option<u8> = None;
        while pos < case.history.len() {
            let (complete, w) = case.history[pos];
            pos += 1;
            life_ops.push(complete);
            if !complete {
                stop_word = Some(w % 7);
                break;
            }
        }
        let n = life_ops.len() as u32;
        // scheduling points of a life on a usable file: 3 (probe) + 1 + 1 (version) ... determined by
        // a dry run: we stop by *word*, via the probe: the controller kills the writer when the
        // n-th update has stored (stop_word + 1) words.
        let world = World::new(path.clone(), vec![]);
        world.0.borrow_mut().probe_on = true;
        if path.exists() {
            world.sync_with_file(None);
        }
        let mut ctl = Controller::new(world.clone());
        let p2 = path.clone();
        let base = idx;
        let body: Body = Box::new(move || {
            let mut w = match crate::shmutil::new_writer(&p2) {
                Ok(w) => w,
                Err(_) => return,
            };
            marker(Pending::Idle);
            for k in 0..n {
                with_world(|w, tid| w.threads[tid].cur_pub = Some(base + k + 1));
                w.write(&rec_for(base + k + 1).to_ceb());
                marker(Pending::Idle);
            }
        });
        let wi = ctl.spawn(true, body);
        // force yields at every scheduling point: a second (never scheduled) thread keeps runnable = 2
        let dummy: Body = Box::new(|| {
            marker(Pending::Wait(u32::MAX));
        });
        let _di = ctl.spawn(false, dummy);
        let mut updates_done = 0u32;
        let mut words_in_update = 0u32;
        let mut in_update = false;
        let mut inflight: Option<u16> = None;
        let mut start_val: Option<u16> = read_gen();
        loop {
            let alive = ctl.step(wi);
            if !alive {
                break;
            }
            match ctl.threads[wi].pending {
                Some(Pending::Idle) => {
                    // between updates: observe the idle value
                    if in_update {
                        in_update = false;
                        updates_done += 1;
                        words_in_update = 0;
                        let g = read_gen().ok_or("file vanished")?;
                        evals += 1;
                        let infl = inflight.take().ok_or("update completed without any record word observed")?;
                        if g & 1 == 1 || g == 0 {
                            return Err(format!("after a completed update starting from generation {:?} the generation is {} (must be even and non-zero)", start_val, g));
                        }
                        let mut want = infl.wrapping_add(1);
                        if want == 0 {
                            want = 2;
                            saw_wrap = true;
                        }
                        if g != want {
                            return Err(format!("completed update: in-flight generation {} then {} (expected {})", infl, g, want));
                        }
                        if Some(g) == start_val || Some(g) == prev_idle {
                            return Err(format!("generation {} unchanged by a completed update (was {:?})", g, start_val));
                        }
                        prev_idle = Some(g);
                        published_to = true;
                        start_val = Some(g);
                    } else {
                        // writer ready (after new): a segment that was published to must not show 0 / odd->?
                        let g = read_gen().ok_or("file vanished")?;
                        if published_to && g == 0 {
                            return Err("generation is 0 after start-up on a segment that had been published to".into());
                        }
                        start_val = Some(g);
                    }
                }
                Some(Pending::Store(l)) if l >= LOC_DATA0 => {
                    // about to store a record word: observe the in-flight generation (third-party view)
                    in_update = true;
                    let g = read_gen().ok_or("file vanished")?;
                    evals += 1;
                    let s = start_val.unwrap_or(0);
                    let want = if s & 1 == 1 { s } else { s.wrapping_add(1) };
                    if g & 1 == 0 {
                        return Err(format!("generation {} is even while record word {} of an update is being written (update started from {})", g, l - LOC_DATA0, s));
                    }
                    if g != want {
                        return Err(format!("in-flight generation {} but the update started from {} (expected {})", g, s, want));
                    }
                    if let Some(prev) = inflight {
                        if prev != g {
                            return Err(format!("in-flight generation changed during one update: {} then {}", prev, g));
                        }
                    }
                    inflight = Some(g);
                    if stop_word.is_some() && updates_done + 1 == n && words_in_update == stop_word.unwrap() as u32 {
                        // interrupted here (before this word is stored)
                        ctl.crash(wi);
                        let g2 = read_gen().ok_or("file vanished")?;
                        if g2 != g {
                            return Err(format!("generation changed by the crash itself: {} -> {}", g, g2));
                        }
                        break;
                    }
                    words_in_update += 1;
                }
                _ => {}
            }
        }
        ctl.finish();
        idx += n;
        // probe values recorded at the data hook must all be odd
        let probe = world.0.borrow().gen_probe.clone();
        for g in probe {
            evals += 1;
            if g & 1 == 0 {
                return Err(format!("the mapped generation was {} (even) right after a record word was stored", g));
            }
        }
    }
    let _ = std::fs::remove_file(&path);
    Ok((evals, saw_wrap))
}

fn c11_check(case: &GenCase, env: &mut Env) -> Verdict {
    let mut v = Verdict::default();
    if case.start & 1 == 1 {
        v.label("odd-start");
        v.nontrivial = true;
    }
    if case.start >= 65533 {
        v.label("start-at-wrap");
        v.nontrivial = true;
    }
    if case.history.iter().any(|(c, _)| !*c) {
        v.label("interrupted-update");
        v.nontrivial = true;
    }
    if case.start == 0 {
        v.label("fresh-file");
    }
    match c11_run(case, env) {
        Ok((n, wrap)) => {
            v.sub_evals += n;
            if wrap {
                v.label("wrapped-to-2");
            }
        }
        Err(m) => v.fail(m),
    }
    v
}

impl Property for C11 {
    type Case = GenCase;
    const ID: &'static str = "C11";
    fn rule() -> String {
        "enumerated (exhaustive): all 65536 start values g (a valid file with that generation; g = 0 is the fresh file the writer creates), each followed by one completed update, and by one update interrupted before a record word, a restart, and a completed update. Generated: histories (<= 200 steps) of completed / interrupted updates from start values near 0, near 65534, odd and random. Observation by a third party: the raw u16 at byte 14 of the file before the update, before every one of the seven record-word stores (in flight) and after it. Oracle: in-flight value odd, equal to g (g odd) or g+1, constant during the update; final value even, non-zero, different from g, equal to in-flight+1 or 2 on wrap; never 0 once published to. Non-trivial: g odd, g >= 65533, or an interrupted update in the history.".into()
    }
    fn cases(tier: Tier) -> u64 {
        match tier {
            Tier::Quick => 20_000,
            Tier::Thorough => 600_000,
        }
    }
    fn strategy(_tier: Tier) -> BoxedStrategy<GenCase> {
        (
            prop_oneof![2 => Just(0u16), 3 => 1u16..40, 4 => 65490u16..=65535, 2 => any::<u16>(), 2 => any::<u16>().prop_map(|g| g | 1)],
            prop::collection::vec((prop::bool::weighted(0.8), 0u8..7), 1..200),
        )
            .prop_map(|(start, history)| GenCase { start, history })
            .boxed()
    }
    fn init() {
        install_hooks();
    }
    fn check(case: &GenCase, env: &mut Env) -> Verdict {
        c11_check(case, env)
    }
    fn floors() -> Vec<(&'static str, f64)> {
        vec![("interrupted-update", 0.5), ("wrapped-to-2", 0.1), ("odd-start", 0.1)]
    }
    fn max_shrink_iters(_t: Tier) -> u32 {
        3000
    }
    fn extra(_tier: Tier, env: &mut Env, _seed: u64) -> Extra {
        let mut ex = Extra::default();
        for g in 0..=u16::MAX {
            for (k, hist) in [vec![(true, 0u8)], vec![(false, (g % 7) as u8), (true, 0)]].into_iter().enumerate() {
                let case = GenCase { start: g, history: hist };
                tick();
                let vd = c11_check(&case, env);
                ex.evaluations += 1 + vd.sub_evals;
                if vd.nontrivial {
                    ex.nontrivial_hashes.push(hash_str(&serde_json::to_string(&case).unwrap()));
                }
                if g == 65535 && k == 1 {
                    ex.samples.push(serde_json::json!({"enumerated_case": case, "labels": vd.labels}));
                }
                if let Some(m) = vd.fail {
                    if ex.failure.is_none() {
                        ex.failure = Some((m, serde_json::to_value(&case).unwrap()));
                    }
                }
            }
        }
        ex.label("enumerated-start-values-65536");
        ex.exhaustive_note = Some("all 65536 start generations x {one completed update; one update interrupted at record word g mod 7 + restart + completed update}".into());
        ex
    }
}
