//! C01: end-to-end containment. A virtual-time world drives the real poller iteration, the real
//! message loop / ShmUpdater / FSM, the real ShmWriter and the real ClockBoundClient on one tmpfs
//! file, against a simulated true time.

use crate::clock::VClock;
use crate::daemon::*;
use crate::model::NS;
use crate::props::poller::{poll_once, Answer};
use crate::runner::*;
use clock_bound_client::ClockBoundClient;
use clock_bound_d::channels::{new_channel_web, DispatchBox};
use clock_bound_d::thread_manager::Context;
use clock_bound_d::verif as dv;
use clock_bound_d::{ChannelId, Message, PhcInfo};
use proptest::prelude::*;
use serde::{Deserialize, Serialize};
use std::cell::RefCell;
use std::rc::Rc;

const PHC0: u32 = 0x50484330;
const REAL_BASE: i128 = 1_760_000_000_000_000_000;
const SCALE: i128 = 1_000_000_000; // e is kept in units of 1e-9 ns

#[derive(Clone, Debug, Serialize, Deserialize, PartialEq)]
pub enum Outcome {
    /// synchronised report that is valid for the true error at the reply instant
    /// (valid_frac: the instant at which chronyd evaluated the report, as a fraction /255 of the
    /// way from the arrival of the request to the departure of the reply)
    SyncValid { slack_ns: i64, split: (u8, u8), leap: u16, interval_log2: i8, age_frac: u16, from_phc: bool, valid_frac: u8 },
    Unsync,
    Stale,
    Unusable { leap: u16 },
    Silence,
    BadReply,
}

#[derive(Clone, Debug, Serialize, Deserialize, PartialEq)]
pub enum Ev {
    Poll { gap_ns: i64, latency_ns: i64, outcome: Outcome },
    /// client call: anchor 0 = gap after the previous event, 1 = at (last synchronised as_of + 5 s + off),
    /// 2 = at (void_after of the last synchronised as_of + off), 3 = at (last publication instant + off)
    Client { idx: u8, anchor: u8, gap_ns: i64, off_ns: i64, pre_delay_ns: i64, between_delay_ns: i64 },
    ClientOpen { idx: u8 },
    /// the daemon exits and is started again at once
    Restart { gap_ns: i64 },
    /// the daemon is killed and stays down until Revive. torn = 0: killed between updates;
    /// torn = k in 1..=7: killed inside its next update of the segment, after the odd generation
    /// and the first k-1 8-byte words of the new record reached the file
    Kill {
        gap_ns: i64,
        #[serde(default)]
        torn: u8,
    },
    Revive { gap_ns: i64 },
}

#[derive(Clone, Debug, Serialize, Deserialize, PartialEq)]
pub struct E2eCase {
    pub drift_ppb: u32,
    pub uptime_ns: i64,
    /// clock error at daemon start, ns (clock minus true time)
    pub e0_ns: i64,
    /// error trajectory: (duration ns, slope in 1/1000 of the configured drift, -1000..=1000)
    pub traj: Vec<(i64, i16)>,
    pub phc_configured: bool,
    pub phc_bound: i64,
    pub events: Vec<Ev>,
}

impl E2eCase {
    /// e(m) in units of 1e-9 ns at monotonic instant m (m >= uptime).
    fn err_scaled(&self, m: i128) -> i128 {
        let mut e = self.e0_ns as i128 * SCALE;
        let mut t = self.uptime_ns as i128;
        let mut last_slope: i128 = 0;
        for (dur, permille) in &self.traj {
            let slope = self.drift_ppb as i128 * *permille as i128; // ppb * 1000
            last_slope = slope;
            let end = t + *dur as i128;
            let upto = m.min(end);
            if upto > t {
                // slope [ppb*1000] * dt [ns] / 1000 = 1e-9 ns units
                e += slope * (upto - t) / 1000;
            }
            t = end;
            if m <= end {
                return e;
            }
        }
        if m > t {
            e += last_slope * (m - t) / 1000;
        }
        e
    }
}

/// Encode a non-negative number of ns as the smallest chrony float >= it (round up).
pub fn wire_at_least_ns(x: i128) -> WireFloat {
    if x <= 0 {
        return WireFloat::ZERO;
    }
    for exp in -39i32..=30 {
        let sh = 25 - exp;
        let num = if sh >= 0 { x << sh } else { x >> (-sh) };
        let mut coef = (num + 999_999_999) / 1_000_000_000;
        if sh < 0 && (x & ((1i128 << (-sh)) - 1)) != 0 {
            coef += 1;
        }
        if coef < (1 << 24) {
            return WireFloat { exp: exp as i8, coef: coef as i32 };
        }
    }
    WireFloat { exp: 30, coef: (1 << 24) - 1 }
}

#[derive(Default, Clone, Debug)]
pub struct E2eStats {
    pub client_calls: u64,
    pub trusted_calls: u64,
    pub trusted_after_loss: u64,
    pub trusted_after_restart: u64,
    pub trusted_while_daemon_down: u64,
    pub tight: u64,
    pub negative_offset_reports: u64,
    pub near_threshold: u64,
    pub uptime_lt_1000: u64,
    pub low_slack: u64,
    pub polls: u64,
    pub sync_reports: u64,
    pub restarts: u64,
    pub torn_kills: u64,
    pub trusted_after_torn_kill: u64,
}

struct Driver {
    case: E2eCase,
    pos: usize,
    now: i128,
    vc: VClock,
    poller: Option<dv::Poller>,
    clients: Vec<Option<ClockBoundClient>>,
    dbox: Option<DispatchBox<ChannelId, Message>>,
    path: std::path::PathBuf,
    phc: Option<PhcInfo>,
    phc_path: std::path::PathBuf,
    failures: Vec<String>,
    stats: E2eStats,
    daemon_up: bool,
    in_loop: bool,
    last_sync_as_of: Option<i128>,
    last_pub_at: Option<i128>,
    loss_since_sync: bool,
    restart_since_sync: bool,
    last_report_tight: bool,
    /// Some(k): the daemon dies inside its next update (see Ev::Kill)
    tear_pending: Option<u8>,
    torn_since_sync: bool,
}

/// The segment writer of the e2e world: the real ShmWriter, except that a pending torn kill stops
/// the update half-way exactly as a SIGKILL inside ShmWriter::write would (odd generation stored,
/// a prefix of the record copied), after which the daemon is down.
struct E2eSink {
    inner: clock_bound_shm::ShmWriter,
    path: std::path::PathBuf,
    driver: Rc<RefCell<Driver>>,
}

fn tear_update(path: &std::path::Path, rec: &crate::layout::Rec, k: u8) {
    use std::os::unix::fs::FileExt;
    let Ok(f) = std::fs::OpenOptions::new().write(true).read(true).open(path) else { return };
    let mut g = [0u8; 2];
    if f.read_exact_at(&mut g, crate::layout::OFF_GENERATION as u64).is_err() {
        return;
    }
    let gen = u16::from_le_bytes(g);
    let odd = if gen & 1 == 0 { gen.wrapping_add(1) } else { gen };
    let _ = f.write_all_at(&odd.to_le_bytes(), crate::layout::OFF_GENERATION as u64);
    let bytes = rec.encode();
    let n = ((k as usize).saturating_sub(1) * 8).min(bytes.len());
    let _ = f.write_all_at(&bytes[..n], crate::layout::HEADER_LEN as u64);
}

impl clock_bound_shm::ShmWrite for E2eSink {
    fn write(&mut self, ceb: &clock_bound_shm::ClockErrorBound) {
        let tear = self.driver.borrow_mut().tear_pending.take();
        if let Some(k) = tear {
            tear_update(&self.path, &crate::layout::Rec::from_ceb(ceb), k);
            let mut d = self.driver.borrow_mut();
            d.daemon_up = false;
            d.restart_since_sync = true;
            d.torn_since_sync = true;
            d.stats.torn_kills += 1;
            if let Some(b) = &d.dbox {
                let _ = b.send(&ChannelId::ShmWriter, Message::ThreadAbort);
            }
            return;
        }
        self.inner.write(ceb);
        // the publication is visible: continue the script until the next message is queued
        let mut d = self.driver.borrow_mut();
        let _ = d.advance();
    }
}

#[derive(PartialEq, Debug)]
enum Adv {
    Sent,
    Restart,
    Down,
    End,
}

impl Driver {
    fn true_time_scaled(&self, m: i128) -> i128 {
        // C(m) = REAL_BASE + m ; T = C - e
        (REAL_BASE + m) * SCALE - self.case.err_scaled(m)
    }

    fn client_call(&mut self, idx: usize, pre: i128, between: i128) {
        if idx >= self.clients.len() {
            return;
        }
        if self.clients[idx].is_none() {
            self.clients[idx] = ClockBoundClient::new_with_path(self.path.to_str().unwrap()).ok();
        }
        let Some(c) = self.clients[idx].as_mut() else { return };
        self.vc.set(self.now, REAL_BASE + self.now);
        let _ = self.vc.take_log();
        self.vc.push_delays(&[pre, between]);
        let res = c.now();
        self.vc.clear_delays();
        let log = self.vc.take_log();
        self.stats.client_calls += 1;
        // the call consumed virtual time
        self.now = self.vc.mono();
        let Ok(r) = res else { return };
        let status = crate::layout::status_to_i32(r.clock_status);
        if status == 0 {
            return;
        }
        let Some(rr) = log.iter().find(|x| crate::clock::is_realtime(x.clock_id)) else {
            self.failures.push("now() returned a trusted interval without reading the realtime clock".into());
            return;
        };
        let m_real = rr.mono_ns;
        let e = crate::clock::timespec_to_ns(r.earliest.as_ref());
        let l = crate::clock::timespec_to_ns(r.latest.as_ref());
        let t = self.true_time_scaled(m_real);
        self.stats.trusted_calls += 1;
        if self.loss_since_sync {
            self.stats.trusted_after_loss += 1;
        }
        if self.restart_since_sync {
            self.stats.trusted_after_restart += 1;
        }
        if self.torn_since_sync {
            self.stats.trusted_after_torn_kill += 1;
        }
        if !self.daemon_up {
            self.stats.trusted_while_daemon_down += 1;
        }
        if self.last_report_tight {
            self.stats.tight += 1;
        }
        if m_real < 1000 * NS {
            self.stats.uptime_lt_1000 += 1;
        }
        if let Some(a) = self.last_sync_as_of {
            let void_after = (a.div_euclid(NS) + 1000) * NS;
            for lm in [a + 5 * NS, void_after, self.last_pub_at.unwrap_or(a)] {
                if (m_real - lm).abs() <= 1000 {
                    self.stats.near_threshold += 1;
                    break;
                }
            }
        }
        let h = (l - e) / 2;
        // tolerance: 1 ns of representation + f64 rounding of the two conversions
        let tol = SCALE + (h >> 40) * SCALE;
        let lo = e * SCALE - tol;
        let hi = l * SCALE + tol;
        let slack = std::cmp::min(t - e * SCALE, l * SCALE - t);
        if slack * 10 < h * SCALE {
            self.stats.low_slack += 1;
        }
        if t < lo || t > hi {
            self.failures.push(format!(
                "client {} at monotonic {} ns obtained status {} and the interval [{}, {}] (half-width {} ns), but true time at the instant its realtime clock was read is {}.{:09} ns: outside by {} x 1e-9 ns. clock error then {} x 1e-9 ns; last synchronised as_of {:?}; daemon up: {}",
                idx,
                m_real,
                status,
                e,
                l,
                h,
                t.div_euclid(SCALE),
                t.rem_euclid(SCALE),
                if t < lo { lo - t } else { t - hi },
                self.case.err_scaled(m_real),
                self.last_sync_as_of,
                self.daemon_up
            ));
        }
    }

    /// Build the scripted chronyd answer for a poll whose reply is generated at `m_q`.
    fn answer_for(&mut self, outcome: &Outcome, m_query: i128, latency: i128) -> Answer {
        let m_q = m_query + latency;
        let real_q = REAL_BASE + m_q;
        let dflt = |leap: u16, age: i128| WireReport {
            ref_id: 1,
            leap,
            ref_time_ns: (real_q - age) as i64,
            offset: WireFloat { exp: -9, coef: -3_000_000 },
            delay: WireFloat { exp: -8, coef: 5_000_000 },
            disp: WireFloat { exp: -10, coef: 6_000_000 },
            interval: WireFloat::pow2(4),
        };
        match outcome {
            Outcome::SyncValid { slack_ns, split, leap, interval_log2, age_frac, from_phc, valid_frac } => {
                // the report bounds the error at the instant chronyd evaluated it
                let m_valid = m_query + latency * *valid_frac as i128 / 255;
                let e = self.case.err_scaled(m_valid);
                let need = (e.abs() + SCALE - 1) / SCALE; // ceil |e| in ns
                let total = need + *slack_ns as i128;
                // split total into |offset| + dispersion + delay/2
                let a = total * split.0 as i128 / 255;
                let rest = total - a;
                let b = rest * split.1 as i128 / 255;
                let c = rest - b;
                let mut offset = wire_at_least_ns(a);
                // the sign of the offset follows the sign of the error (either is legal: only the magnitude counts)
                if e > 0 {
                    offset.coef = -offset.coef;
                }
                if offset.coef < 0 {
                    self.stats.negative_offset_reports += 1;
                }
                let disp = wire_at_least_ns(b);
                let delay = wire_at_least_ns(2 * c);
                let interval = WireFloat::pow2(*interval_log2);
                let max_age = ((8i128 << (*interval_log2 as i32 + 10)) * NS >> 10).max(NS) - NS;
                let age = max_age * *age_frac as i128 / 65535;
                self.last_report_tight = *slack_ns == 0;
                Answer::Tracking(WireReport {
                    ref_id: if *from_phc { PHC0 } else { 1 },
                    leap: *leap,
                    ref_time_ns: (real_q - age) as i64,
                    offset,
                    delay,
                    disp,
                    interval,
                })
            }
            Outcome::Unsync => Answer::Tracking(dflt(3, NS)),
            Outcome::Stale => Answer::Tracking(dflt(0, 130 * NS)),
            Outcome::Unusable { leap } => Answer::Tracking(dflt((*leap).max(4), NS)),
            Outcome::Silence => Answer::Silence,
            Outcome::BadReply => Answer::WrongType,
        }
    }

    /// Walk through the events until a message has been handed to the writer's mailbox.
    fn advance(&mut self) -> Adv {
        loop {
            if self.pos >= self.case.events.len() {
                if self.in_loop {
                    if let Some(d) = &self.dbox {
                        let _ = d.send(&ChannelId::ShmWriter, Message::ThreadAbort);
                    }
                }
                return Adv::End;
            }
            let ev = self.case.events[self.pos].clone();
            self.pos += 1;
            match ev {
                Ev::Client { idx, anchor, gap_ns, off_ns, pre_delay_ns, between_delay_ns } => {
                    let target = match (anchor, self.last_sync_as_of, self.last_pub_at) {
                        (1, Some(a), _) => a + 5 * NS + off_ns as i128,
                        (2, Some(a), _) => (a.div_euclid(NS) + 1000) * NS + off_ns as i128,
                        (3, _, Some(p)) => p + off_ns as i128,
                        _ => self.now + gap_ns as i128,
                    };
                    // anchored calls subtract the pre-read delay so that the realtime read lands on target
                    let start = if anchor == 0 { target } else { target - pre_delay_ns as i128 };
                    self.now = self.now.max(start);
                    self.client_call(idx as usize, pre_delay_ns as i128, between_delay_ns as i128);
                }
                Ev::ClientOpen { idx } => {
                    let i = idx as usize;
                    if i < self.clients.len() {
                        self.clients[i] = ClockBoundClient::new_with_path(self.path.to_str().unwrap()).ok();
                    }
                }
                Ev::Poll { gap_ns, latency_ns, outcome } => {
                    self.now += gap_ns as i128;
                    if !self.daemon_up {
                        continue;
                    }
                    self.vc.set(self.now, REAL_BASE + self.now);
                    let answer = self.answer_for(&outcome, self.now, latency_ns as i128);
                    let from_phc = matches!(&answer, Answer::Tracking(r) if r.ref_id == PHC0);
                    let _ = from_phc;
                    let as_of = self.now;
                    let mut poller = self.poller.take().unwrap_or_default();
                    let obs = poll_once(&mut poller, self.phc.clone(), &answer, latency_ns as i128, &self.vc);
                    self.poller = Some(poller);
                    self.now = self.vc.mono();
                    self.stats.polls += 1;
                    let Some(msg) = obs.messages.into_iter().next() else {
                        self.failures.push("a poll produced no message".into());
                        continue;
                    };
                    // bookkeeping for labels only (the oracle does not depend on it)
                    let sync = matches!(outcome, Outcome::SyncValid { .. }) && matches!(msg, Message::ClockErrorBoundData(_));
                    if sync {
                        self.stats.sync_reports += 1;
                        self.last_sync_as_of = Some(as_of);
                        self.loss_since_sync = false;
                        self.restart_since_sync = false;
                        self.torn_since_sync = self.tear_pending.is_some();
                    } else {
                        self.loss_since_sync = true;
                    }
                    self.last_pub_at = Some(self.now);
                    if let Some(d) = &self.dbox {
                        let _ = d.send(&ChannelId::ShmWriter, msg);
                    }
                    return Adv::Sent;
                }
                Ev::Restart { gap_ns } => {
                    self.now += gap_ns as i128;
                    if !self.daemon_up {
                        continue;
                    }
                    self.stats.restarts += 1;
                    self.restart_since_sync = true;
                    if self.in_loop {
                        if let Some(d) = &self.dbox {
                            let _ = d.send(&ChannelId::ShmWriter, Message::ThreadAbort);
                        }
                    }
                    return Adv::Restart;
                }
                Ev::Kill { gap_ns, torn } => {
                    self.now += gap_ns as i128;
                    if !self.daemon_up {
                        continue;
                    }
                    if torn > 0 {
                        // dies inside the update that its next message triggers
                        self.tear_pending = Some(torn);
                        continue;
                    }
                    self.daemon_up = false;
                    self.restart_since_sync = true;
                    if self.in_loop {
                        if let Some(d) = &self.dbox {
                            let _ = d.send(&ChannelId::ShmWriter, Message::ThreadAbort);
                        }
                    }
                    return Adv::Down;
                }
                Ev::Revive { gap_ns } => {
                    self.now += gap_ns as i128;
                    if self.daemon_up {
                        continue;
                    }
                    self.daemon_up = true;
                    self.stats.restarts += 1;
                    return Adv::Restart;
                }
            }
        }
    }
}

pub fn run_e2e(case: &E2eCase, env: &mut Env) -> (Vec<String>, E2eStats) {
    let path = env.fresh_path("e2e-seg");
    let phc_path = env.fresh_path("e2e-phc");
    let _ = std::fs::remove_file(&path);
    std::fs::write(&phc_path, format!("{}\n", case.phc_bound)).unwrap();
    let vc = VClock::new(case.uptime_ns as i128, REAL_BASE + case.uptime_ns as i128);
    // a 250 Hz kernel: the coarse realtime clock, should anything read it, is up to 4 ms behind
    vc.set_realtime_coarse_tick(4_000_000);
    let _g = vc.install();
    let driver = Rc::new(RefCell::new(Driver {
        case: case.clone(),
        pos: 0,
        now: case.uptime_ns as i128,
        vc: vc.clone(),
        poller: None,
        clients: vec![None, None, None],
        dbox: None,
        path: path.clone(),
        phc: if case.phc_configured {
            Some(PhcInfo {
                refid: PHC0,
                sysfs_error_bound_path: phc_path.clone(),
            })
        } else {
            None
        },
        phc_path: phc_path.clone(),
        failures: vec![],
        stats: E2eStats::default(),
        daemon_up: true,
        in_loop: false,
        last_sync_as_of: None,
        last_pub_at: None,
        loss_since_sync: false,
        restart_since_sync: false,
        last_report_tight: false,
        tear_pending: None,
        torn_since_sync: false,
    }));
    let mut guard = 0;
    'lives: loop {
        guard += 1;
        if guard > 200 {
            break;
        }
        // ---- one daemon life
        let (mut mboxes, dbox) = new_channel_web(vec![ChannelId::ClockErrorBoundPoller, ChannelId::ShmWriter, ChannelId::MainThread]);
        let mbox = mboxes.get_mailbox(&ChannelId::ShmWriter).unwrap();
        let _main = mboxes.get_mailbox(&ChannelId::MainThread).unwrap();
        let ctx = Context {
            mbox,
            dbox: dbox.clone(),
            channel_id: ChannelId::ShmWriter,
        };
        {
            let mut d = driver.borrow_mut();
            let now = d.now;
            d.vc.set(now, REAL_BASE + now);
            d.dbox = Some(dbox.clone());
            d.poller = Some(dv::Poller::default());
            d.in_loop = false;
        }
        let writer = match crate::shmutil::new_writer(&path) {
            Ok(w) => w,
            Err(e) => {
                driver.borrow_mut().failures.push(format!("ShmWriter::new failed: {}", e));
                break;
            }
        };
        let sink = E2eSink {
            inner: writer,
            path: path.clone(),
            driver: driver.clone(),
        };
        let updater = dv::Updater::new(sink, case.drift_ppb);
        // prime: walk to the first poll of this life
        let first = driver.borrow_mut().advance();
        match first {
            Adv::Sent => {
                driver.borrow_mut().in_loop = true;
                // every later step happens inside the callback; the loop ends on ThreadAbort
                dv::run_process_messages(ctx, updater);
                driver.borrow_mut().in_loop = false;
            }
            Adv::Restart => {
                drop(updater);
                continue 'lives;
            }
            Adv::Down => {
                drop(updater);
            }
            Adv::End => {
                drop(updater);
                break 'lives;
            }
        }
        // why did the loop end?
        let (ended, down) = {
            let d = driver.borrow();
            (d.pos >= d.case.events.len(), !d.daemon_up)
        };
        if down {
            // the daemon is dead: clients go on; wait for a Revive
            let r = driver.borrow_mut().advance();
            match r {
                Adv::Restart => continue 'lives,
                _ => break 'lives,
            }
        }
        if ended {
            break;
        }
    }
    let _ = std::fs::remove_file(&path);
    let _ = std::fs::remove_file(&phc_path);
    let d = driver.borrow();
    let _ = &d.phc_path;
    (d.failures.clone(), d.stats.clone())
}

// ------------------------------------------------------------------------------------------------

fn gap_strategy() -> BoxedStrategy<i64> {
    prop_oneof![
        4 => Just(1_000_000_000i64),
        2 => 1i64..2_000_000_000,
        2 => 1i64..8_000_000_000,
        1 => 1i64..200_000_000_000,
        1 => 1i64..1_500_000_000_000,
    ]
    .boxed()
}

fn small_delay() -> BoxedStrategy<i64> {
    prop_oneof![4 => Just(0i64), 2 => 0i64..1_000_000, 1 => 0i64..3_000_000_000, 1 => 0i64..30_000_000_000].boxed()
}

fn outcome_strategy() -> BoxedStrategy<Outcome> {
    prop_oneof![
        8 => (
            prop_oneof![5 => Just(0i64), 2 => 0i64..1000, 2 => 0i64..100_000_000],
            any::<(u8, u8)>(),
            0u16..3,
            0i8..=7,
            any::<u16>(),
            prop::bool::weighted(0.3),
            prop_oneof![Just(0u8), Just(255u8), any::<u8>()]
        )
            .prop_map(|(slack_ns, split, leap, interval_log2, age_frac, from_phc, valid_frac)| Outcome::SyncValid { slack_ns, split, leap, interval_log2, age_frac, from_phc, valid_frac }),
        2 => Just(Outcome::Unsync),
        1 => Just(Outcome::Stale),
        1 => (4u16..12).prop_map(|leap| Outcome::Unusable { leap }),
        3 => Just(Outcome::Silence),
        1 => Just(Outcome::BadReply),
    ]
    .boxed()
}

fn event_strategy() -> BoxedStrategy<Ev> {
    prop_oneof![
        8 => (gap_strategy(), small_delay(), outcome_strategy()).prop_map(|(gap_ns, latency_ns, outcome)| Ev::Poll { gap_ns, latency_ns, outcome }),
        6 => (0u8..3, prop_oneof![4 => Just(0u8), 2 => Just(1u8), 2 => Just(2u8), 2 => Just(3u8)], gap_strategy(), -2_000i64..2_000, small_delay(), small_delay())
            .prop_map(|(idx, anchor, gap_ns, off_ns, pre_delay_ns, between_delay_ns)| Ev::Client { idx, anchor, gap_ns, off_ns, pre_delay_ns, between_delay_ns }),
        1 => (0u8..3).prop_map(|idx| Ev::ClientOpen { idx }),
        1 => gap_strategy().prop_map(|gap_ns| Ev::Restart { gap_ns }),
        1 => (gap_strategy(), prop_oneof![1 => Just(0u8), 1 => 1u8..=7]).prop_map(|(gap_ns, torn)| Ev::Kill { gap_ns, torn }),
        1 => gap_strategy().prop_map(|gap_ns| Ev::Revive { gap_ns }),
    ]
    .boxed()
}

fn e2e_strategy() -> BoxedStrategy<E2eCase> {
    (
        prop_oneof![2 => Just(1000u32), 3 => Just(50_000u32), 2 => Just(500_000u32), 1 => 1u32..1_000_000_000, 1 => Just(0u32)],
        prop_oneof![4 => 0i64..1_000_000_000_000, 2 => 0i64..100_000_000_000_000, 1 => 0i64..10_000_000_000_000_000],
        prop_oneof![3 => -1_000_000i64..1_000_000, 2 => -1_000_000_000i64..1_000_000_000, 1 => Just(0i64)],
        prop::collection::vec((1i64..2_000_000_000_000, prop_oneof![3 => Just(1000i16), 3 => Just(-1000i16), 1 => Just(0i16), 3 => -1000i16..=1000]), 1..8),
        any::<bool>(),
        0i64..1_000_000,
        prop::collection::vec(event_strategy(), 1..60),
    )
        .prop_map(|(drift_ppb, uptime_ns, e0_ns, traj, phc_configured, phc_bound, events)| E2eCase {
            drift_ppb,
            uptime_ns,
            e0_ns,
            traj,
            phc_configured,
            phc_bound,
            events,
        })
        .boxed()
}

pub struct C01;

fn check_c01_case(case: &E2eCase, env: &mut Env) -> Verdict {
    let mut v = Verdict::default();
    let (failures, st) = run_e2e(case, env);
    v.sub_evals += st.client_calls + st.polls;
    if st.trusted_calls > 0 {
        v.label("trusted-interval-obtained");
    }
    if st.trusted_after_loss > 0 {
        v.label("trusted-after-loss");
        v.nontrivial = true;
    }
    if st.trusted_after_restart > 0 {
        v.label("trusted-after-restart");
        v.nontrivial = true;
    }
    if st.trusted_while_daemon_down > 0 {
        v.label("trusted-while-daemon-down");
        v.nontrivial = true;
    }
    if st.tight > 0 {
        v.label("tight-report-slack-0");
    }
    if st.low_slack > 0 {
        v.label("low-slack-call");
        v.nontrivial = true;
    }
    if st.negative_offset_reports > 0 {
        v.label("negative-offset-report");
    }
    if st.near_threshold > 0 {
        v.label("asked-within-1us-of-a-threshold");
    }
    if st.uptime_lt_1000 > 0 {
        v.label("trusted-at-uptime-below-1000s");
    }
    if st.restarts > 0 {
        v.label("daemon-restarted");
    }
    if st.torn_kills > 0 {
        v.label("daemon-killed-inside-an-update");
    }
    if st.trusted_after_torn_kill > 0 {
        v.label("trusted-after-kill-inside-update");
        v.nontrivial = true;
    }
    if case.traj.iter().any(|(d, s)| s.abs() == 1000 && *d > 100_000_000_000) {
        v.label("drift-at-max-for-100s");
    }
    if let Some(m) = failures.into_iter().next() {
        v.fail(m);
    }
    v
}

impl Property for C01 {
    type Case = E2eCase;
    const ID: &'static str = "C01";
    fn rule() -> String {
        "cases = world scripts on a virtual monotonic axis: drift setting {1, 50, 500 ppm, random, 0}; machine uptime at daemon start (0..1000 s 57 %, hours, months); clock error at start +-1 ms / +-1 s; error trajectory of 1..7 linear pieces with slopes in [-drift,+drift] biased to the extremes; PHC configured or not; 1..60 events with gaps 1 ns..1500 s: Poll{latency, outcome in SyncValid (report constructed so that |offset|+disp+delay/2 on the wire >= |true error| at the reply instant, slack 0 in 55 %), Unsync, Stale, Unusable, Silence, BadReply}, Client{client index, placed after a gap or anchored at last as_of+5 s / void_after / last publication +-2 us, pre-emption delays before and between its two clock reads}, ClientOpen, Restart, Kill (daemon stays down; in half of them the daemon dies inside its next update of the segment: odd generation stored and 0..6 leading words of the new record copied, as SIGKILL inside ShmWriter::write leaves it), Revive. Real code end to end: poller iteration with scripted chronyd, mpsc, process_messages, ShmUpdater/FSM, ShmWriter, ClockBoundClient on one tmpfs file. Oracle: for every now() that returns Synchronized or FreeRunning, earliest - tol <= T(instant of that call's realtime read) <= latest + tol with T = clock - e(m) exact to 1e-9 ns, tol = 1 ns + half-width*2^-40. Non-trivial: a trusted result after a non-synchronised outcome / restart / with the daemon down, or with slack below 10 % of the half-width.".into()
    }
    fn assumptions() -> Vec<String> {
        vec![
            "the physical premises are instantiated as: realtime clock = monotonic + constant, clock error piecewise linear with |slope| <= configured drift per monotonic second, no steps; chronyd's slewing between reports is part of 'the report was valid'".into(),
            "a SyncValid report bounds the clock error at a generated instant between the arrival of the request at chronyd and the departure of the reply".into(),
            "tolerance 1 ns + half-width * 2^-40 for the two f64 conversions".into(),
            "CLOCK_REALTIME_COARSE, if read, returns the realtime clock of the last 4 ms tick (250 Hz kernel); CLOCK_MONOTONIC_COARSE is modelled as exact (its lag changes an age by at most one tick, i.e. the bound by drift x 4 ms)".into(),
        ]
    }
    fn cases(tier: Tier) -> u64 {
        match tier {
            Tier::Quick => 600_000,
            Tier::Thorough => 20_000_000,
        }
    }
    fn strategy(_tier: Tier) -> BoxedStrategy<E2eCase> {
        e2e_strategy()
    }
    fn check(case: &E2eCase, env: &mut Env) -> Verdict {
        check_c01_case(case, env)
    }
    fn floors() -> Vec<(&'static str, f64)> {
        vec![
            ("trusted-interval-obtained", 0.5),
            ("trusted-after-loss", 0.2),
            ("trusted-after-restart", 0.1),
            ("trusted-after-kill-inside-update", 0.02),
            ("tight-report-slack-0", 0.3),
            ("negative-offset-report", 0.3),
            ("asked-within-1us-of-a-threshold", 0.1),
            ("trusted-at-uptime-below-1000s", 0.1),
            ("low-slack-call", 0.2),
        ]
    }
    fn max_shrink_iters(_t: Tier) -> u32 {
        3000
    }
}
