//! C13 (outages and PHC failures degrade on schedule) and C12 (clock reads are ordered so that
//! delays only add pessimism), on the real poller loop with a scripted chronyd at the query seam,
//! under an auto-advancing virtual clock.

use crate::clock::{ClockRead, VClock};
use crate::daemon::*;
use crate::model::*;
use crate::runner::*;
use chrony_candm::reply::{Reply, ReplyBody, Status};
use clock_bound_d::channels::new_channel_web;
use clock_bound_d::thread_manager::Context;
use clock_bound_d::verif as dv;
use clock_bound_d::{ChannelId, Message, PhcInfo};
use proptest::prelude::*;
use serde::{Deserialize, Serialize};
use std::cell::RefCell;
use std::time::Duration;

#[derive(Clone, Debug, Serialize, Deserialize, PartialEq)]
pub enum Answer {
    /// a Tracking reply (ref_id inside)
    Tracking(WireReport),
    /// no reply at all (timeout)
    Silence,
    /// a datagram that does not deserialise
    Malformed,
    /// a well-formed reply of another type
    WrongType,
}

struct Scripted {
    answer: Answer,
    latency_ns: i128,
    queries: u32,
}

thread_local! {
    static SCRIPT: RefCell<Option<Scripted>> = const { RefCell::new(None) };
    static QUERY_LOG: RefCell<Vec<(usize, i128, i128)>> = const { RefCell::new(Vec::new()) };
}

/// The responder installed at the query seam: consults the thread-local script and the virtual
/// clock of the calling thread.
fn scripted_responder() -> dv::Responder {
    Box::new(|_req, _opts| {
        let (answer, latency) = SCRIPT.with(|s| {
            let mut g = s.borrow_mut();
            let sc = g.as_mut().expect("no scripted answer installed");
            sc.queries += 1;
            (sc.answer.clone(), sc.latency_ns)
        });
        // log: position in the clock-read log at which the query was issued, virtual time then and
        // at the reply
        let vc = crate::clock::current().expect("no virtual clock");
        let pos = vc.log_len();
        let t0 = vc.mono();
        vc.advance(latency);
        let t1 = vc.mono();
        QUERY_LOG.with(|q| q.borrow_mut().push((pos, t0, t1)));
        match answer {
            Answer::Tracking(r) => Ok(wire_reply(&r, 7)),
            Answer::Silence => Err(std::io::Error::new(std::io::ErrorKind::TimedOut, "scripted silence")),
            Answer::Malformed => Err(std::io::Error::new(std::io::ErrorKind::InvalidData, "scripted malformed reply")),
            Answer::WrongType => Ok(Reply {
                status: Status::Success,
                cmd: 0,
                sequence: 7,
                body: ReplyBody::Null,
            }),
        }
    })
}

pub struct PollObs {
    pub messages: Vec<Message>,
    pub reads: Vec<ClockRead>,
    /// (log position of the query, virtual mono at the query, at the reply)
    pub query: Option<(usize, i128, i128)>,
}

/// One iteration of the real poller loop on a persistent poller.
pub fn poll_once(poller: &mut dv::Poller, phc: Option<PhcInfo>, answer: &Answer, latency_ns: i128, vc: &VClock) -> PollObs {
    let (mut mboxes, dbox) = new_channel_web(vec![ChannelId::ClockErrorBoundPoller, ChannelId::ShmWriter, ChannelId::MainThread]);
    let mbox = mboxes.get_mailbox(&ChannelId::ClockErrorBoundPoller).unwrap();
    let shm_mbox = mboxes.get_mailbox(&ChannelId::ShmWriter).unwrap();
    let _main = mboxes.get_mailbox(&ChannelId::MainThread).unwrap();
    let ctx = Context {
        mbox,
        dbox: dbox.clone(),
        channel_id: ChannelId::ClockErrorBoundPoller,
    };
    // exactly one iteration: the abort is already waiting in the poller's mailbox
    dbox.send(&ChannelId::ClockErrorBoundPoller, Message::ThreadAbort).unwrap();
    SCRIPT.with(|s| {
        *s.borrow_mut() = Some(Scripted {
            answer: answer.clone(),
            latency_ns,
            queries: 0,
        })
    });
    QUERY_LOG.with(|q| q.borrow_mut().clear());
    dv::set_thread_responder(Some(scripted_responder()));
    let _ = vc.take_log();
    dv::run_poller(ctx, poller, phc, Duration::ZERO);
    dv::set_thread_responder(None);
    let reads = vc.take_log();
    let messages: Vec<Message> = shm_mbox.try_iter().collect();
    // the query whose reply was delivered (an implementation may legitimately ask again)
    let query = QUERY_LOG.with(|q| q.borrow().last().copied());
    PollObs { messages, reads, query }
}

/// What one iteration of a batch did.
pub struct IterObs {
    pub message: Option<Message>,
    /// clock reads of this iteration (starting with the as-of read)
    pub reads: Vec<ClockRead>,
    /// the query whose reply was delivered: (position in `reads`, virtual mono at the query, at the reply)
    pub query: Option<(usize, i128, i128)>,
}

/// What a scripted iteration is made of (C13 drives whole batches through one call of the real loop,
/// so that state the loop keeps across iterations is exercised too).
pub struct BatchStep {
    pub gap_ns: i128,
    pub latency_ns: i128,
    pub answer: Answer,
    pub read_delays: Vec<i128>,
    /// action performed when the iteration starts (e.g. change the PHC error-bound file)
    pub at_start: Option<Box<dyn FnMut()>>,
}

thread_local! {
    static BATCH: RefCell<Vec<(Answer, i128)>> = const { RefCell::new(Vec::new()) };
    static BATCH_CUR: std::cell::Cell<usize> = const { std::cell::Cell::new(usize::MAX) };
}

/// Run `steps.len()` consecutive iterations of the real poller loop in ONE call of it. The start of an
/// iteration is recognised by its as-of read (the only CLOCK_MONOTONIC_COARSE read of the loop); at
/// that moment the step's gap elapses, its start action runs and its read delays are queued.
pub fn poll_batch(poller: &mut dv::Poller, phc: Option<PhcInfo>, mut steps: Vec<BatchStep>, vc: &VClock) -> Vec<IterObs> {
    let n = steps.len();
    if n == 0 {
        return vec![];
    }
    let (mut mboxes, dbox) = new_channel_web(vec![ChannelId::ClockErrorBoundPoller, ChannelId::ShmWriter, ChannelId::MainThread]);
    let mbox = mboxes.get_mailbox(&ChannelId::ClockErrorBoundPoller).unwrap();
    let shm_mbox = mboxes.get_mailbox(&ChannelId::ShmWriter).unwrap();
    let _main = mboxes.get_mailbox(&ChannelId::MainThread).unwrap();
    let ctx = Context {
        mbox,
        dbox: dbox.clone(),
        channel_id: ChannelId::ClockErrorBoundPoller,
    };
    // n - 1 messages the loop ignores ("unexpected message"), then the abort: exactly n iterations
    for _ in 0..n - 1 {
        dbox.send(&ChannelId::ClockErrorBoundPoller, Message::ChronyNotResponding).unwrap();
    }
    dbox.send(&ChannelId::ClockErrorBoundPoller, Message::ThreadAbort).unwrap();
    BATCH.with(|b| *b.borrow_mut() = steps.iter().map(|s| (s.answer.clone(), s.latency_ns)).collect());
    BATCH_CUR.with(|c| c.set(usize::MAX));
    QUERY_LOG.with(|q| q.borrow_mut().clear());
    let _ = vc.take_log();
    // iteration boundaries, recorded as positions in the clock log
    let starts: std::rc::Rc<RefCell<Vec<usize>>> = Default::default();
    let starts2 = starts.clone();
    let mut next = 0usize;
    let mut gaps: Vec<(i128, Vec<i128>, Option<Box<dyn FnMut()>>)> = steps.drain(..).map(|s| (s.gap_ns, s.read_delays, s.at_start)).collect();
    crate::clock::set_on_read(Some(Box::new(move |clk, st| {
        if clk != CLK_COARSE || next >= gaps.len() {
            return;
        }
        let (gap, delays, action) = &mut gaps[next];
        st.mono_ns += *gap;
        if let Some(a) = action.as_mut() {
            a();
        }
        st.pre_read_delays.clear();
        st.pre_read_delays.extend(delays.iter().copied());
        starts2.borrow_mut().push(st.log.len());
        BATCH_CUR.with(|c| c.set(next));
        next += 1;
    })));
    dv::set_thread_responder(Some(Box::new(|_req, _opts| {
        let cur = BATCH_CUR.with(|c| c.get());
        let (answer, latency) = BATCH.with(|b| b.borrow().get(cur).cloned()).expect("query outside a scripted iteration");
        let vc = crate::clock::current().expect("no virtual clock");
        let pos = vc.log_len();
        let t0 = vc.mono();
        vc.advance(latency);
        let t1 = vc.mono();
        QUERY_LOG.with(|q| q.borrow_mut().push((pos, t0, t1)));
        match answer {
            Answer::Tracking(r) => Ok(wire_reply(&r, 7)),
            Answer::Silence => Err(std::io::Error::new(std::io::ErrorKind::TimedOut, "scripted silence")),
            Answer::Malformed => Err(std::io::Error::new(std::io::ErrorKind::InvalidData, "scripted malformed reply")),
            Answer::WrongType => Ok(Reply {
                status: Status::Success,
                cmd: 0,
                sequence: 7,
                body: ReplyBody::Null,
            }),
        }
    })));
    dv::run_poller(ctx, poller, phc, Duration::ZERO);
    dv::set_thread_responder(None);
    crate::clock::set_on_read(None);
    vc.clear_delays();
    let log = vc.take_log();
    let queries: Vec<(usize, i128, i128)> = QUERY_LOG.with(|q| q.borrow().clone());
    let messages: Vec<Message> = shm_mbox.try_iter().collect();
    let starts = starts.borrow().clone();
    let mut out = vec![];
    for k in 0..starts.len() {
        let a = starts[k];
        let b = starts.get(k + 1).copied().unwrap_or(log.len());
        // the last query issued inside this iteration
        let q = queries.iter().filter(|q| q.0 >= a && q.0 <= b).last().map(|q| (q.0 - a, q.1, q.2));
        out.push(IterObs {
            message: messages.get(k).cloned(),
            reads: log[a..b].to_vec(),
            query: q,
        });
    }
    // more messages than iterations would be a violation of "one message per poll"
    if messages.len() != starts.len() {
        out.push(IterObs {
            message: None,
            reads: vec![],
            query: None,
        });
    }
    out
}

// ------------------------------------------------------------------------------------------------
// C13

#[derive(Clone, Debug, Serialize, Deserialize, PartialEq)]
pub struct PollStep {
    pub gap_ns: i64,
    pub latency_ns: i64,
    pub answer: Answer,
    /// restart the daemon (fresh poller) before this poll
    pub restart: bool,
    /// extra delays consumed by the clock reads of this iteration (pre-emption)
    pub read_delays: Vec<i64>,
    /// the PHC error-bound file changes to this state before the poll
    #[serde(default)]
    pub phc_change: Option<PhcFile>,
}

#[derive(Clone, Debug, Serialize, Deserialize, PartialEq)]
pub enum PhcFile {
    Value(i64),
    Missing,
    /// the path exists but is a directory (read fails)
    Directory,
}

#[derive(Clone, Debug, Serialize, Deserialize, PartialEq)]
pub struct PollCase {
    pub uptime_ns: i64,
    /// PHC configuration: reference id the daemon was started with
    pub phc_refid: Option<u32>,
    pub phc_file: PhcFile,
    pub steps: Vec<PollStep>,
}

const PHC0: u32 = 0x50484330;

fn refid_strategy() -> BoxedStrategy<u32> {
    prop_oneof![
        5 => Just(PHC0),
        1 => Just(PHC0.swap_bytes()),
        1 => Just(PHC0 + 1),
        1 => Just(PHC0 - 1),
        1 => Just(0u32),
        1 => Just(PHC0 & 0x00ff_ffff),
        1 => Just(PHC0 >> 8),
        1 => any::<u32>(),
    ]
    .boxed()
}

fn report_strategy() -> BoxedStrategy<WireReport> {
    (refid_strategy(), 0u16..5, crate::props::daemon::wf_signed(), crate::props::daemon::wf_nonneg(), crate::props::daemon::wf_nonneg())
        .prop_map(|(ref_id, leap, offset, delay, disp)| WireReport {
            ref_id,
            leap,
            ref_time_ns: 1_700_000_000_000_000_000,
            offset,
            delay,
            disp,
            interval: WireFloat::pow2(4),
        })
        .boxed()
}

fn gap5_strategy() -> BoxedStrategy<i64> {
    prop_oneof![
        3 => Just(1_000_000_000i64),
        2 => Just(4_999_999_999i64),
        2 => Just(5_000_000_000i64),
        2 => Just(5_000_000_001i64),
        2 => 4_990_000_000i64..5_010_000_000,
        2 => 0i64..12_000_000_000,
        1 => 0i64..100_000_000_000,
    ]
    .boxed()
}

fn pollstep_strategy() -> BoxedStrategy<PollStep> {
    (
        gap5_strategy(),
        prop_oneof![3 => Just(0i64), 3 => 0i64..50_000_000, 1 => 0i64..3_100_000_000, 1 => Just(4_999_999_999i64), 1 => 0i64..7_000_000_000],
        prop_oneof![5 => report_strategy().prop_map(Answer::Tracking), 4 => Just(Answer::Silence), 1 => Just(Answer::Malformed), 1 => Just(Answer::WrongType)],
        prop::bool::weighted(0.06),
        prop_oneof![4 => Just(vec![]), 2 => prop::collection::vec(prop_oneof![Just(0i64), 0i64..1000, 0i64..6_000_000_000], 1..5)],
        prop_oneof![8 => Just(None), 1 => Just(Some(PhcFile::Missing)), 1 => (0i64..1_000_000).prop_map(|x| Some(PhcFile::Value(x))), 1 => Just(Some(PhcFile::Directory))],
    )
        .prop_map(|(gap_ns, latency_ns, answer, restart, read_delays, phc_change)| PollStep {
            gap_ns,
            latency_ns,
            answer,
            restart,
            read_delays,
            phc_change,
        })
        .boxed()
}

fn c13_strategy() -> BoxedStrategy<PollCase> {
    (
        0i64..10_000_000_000_000,
        prop_oneof![2 => Just(None), 3 => Just(Some(PHC0)), 1 => refid_strategy().prop_map(Some)],
        prop_oneof![3 => (0i64..1_000_000_000).prop_map(PhcFile::Value), 1 => Just(PhcFile::Missing), 1 => Just(PhcFile::Directory), 1 => Just(PhcFile::Value(0)), 1 => (-1000i64..0).prop_map(PhcFile::Value)],
        prop::collection::vec(pollstep_strategy(), 1..40),
    )
        .prop_map(|(uptime_ns, phc_refid, phc_file, steps)| PollCase {
            uptime_ns,
            phc_refid,
            phc_file,
            steps,
        })
        .boxed()
}

const CLK_MONO: i32 = libc::CLOCK_MONOTONIC;
const CLK_COARSE: i32 = libc::CLOCK_MONOTONIC_COARSE;

pub struct C13;

fn check_c13_case(case: &PollCase, env: &mut Env) -> Verdict {
    let mut v = Verdict::default();
    // PHC error-bound file
    let phc_path = env.fresh_path("phc_error_bound");
    let set_phc = |f: &PhcFile| {
        let _ = std::fs::remove_file(&phc_path);
        let _ = std::fs::remove_dir(&phc_path);
        match f {
            PhcFile::Value(x) => std::fs::write(&phc_path, format!("{}\n", x)).unwrap(),
            PhcFile::Missing => {}
            PhcFile::Directory => std::fs::create_dir(&phc_path).unwrap(),
        }
    };
    set_phc(&case.phc_file);
    let phc = case.phc_refid.map(|refid| PhcInfo {
        refid,
        sysfs_error_bound_path: phc_path.clone(),
    });
    let vc = VClock::new(case.uptime_ns as i128, 1_700_000_000_000_000_000 + case.uptime_ns as i128);
    let _g = vc.install();
    let mut poller = dv::Poller::default();
    // model state: instant of the last good answer
    let construct_reads = vc.take_log();
    // (an implementation that does not look at the clock when it is constructed is judged from the
    // instant of construction all the same)
    // The model keeps the instant of the last good answer as an interval [lo, hi]: both ends are the
    // monotonic reading the implementation took right after the answer when there is one (the code
    // under test does that); an implementation that takes no such reading is judged against the
    // whole span in which "the last good answer" can be placed (request issued .. end of iteration),
    // and a verdict is only demanded where it does not depend on that choice.
    let t_construct = construct_reads.iter().find(|r| r.clock_id == CLK_MONO).map(|r| r.value_ns).unwrap_or(vc.mono());
    let mut last_good: (i128, i128) = (t_construct - 5_000_000_000, t_construct - 5_000_000_000);
    let mut ever_answered = false;
    // consecutive polls without a restart run as ONE call of the real loop
    let phc_now = std::rc::Rc::new(RefCell::new(case.phc_file.clone()));
    let mut i = 0usize;
    let mut all_obs: Vec<(usize, IterObs, PhcFile)> = vec![];
    let mut restarts_at: Vec<(usize, i128)> = vec![];
    while i < case.steps.len() {
        if case.steps[i].restart {
            v.label("daemon-restart");
            poller = dv::Poller::default();
            let rs = vc.take_log();
            restarts_at.push((i, rs.iter().find(|r| r.clock_id == CLK_MONO).map(|r| r.value_ns).unwrap_or(vc.mono()) - 5_000_000_000));
        }
        let mut j = i + 1;
        while j < case.steps.len() && !case.steps[j].restart {
            j += 1;
        }
        let mut batch = vec![];
        let file_states: std::rc::Rc<RefCell<Vec<PhcFile>>> = Default::default();
        for st in &case.steps[i..j] {
            let change = st.phc_change.clone();
            let pp = phc_path.clone();
            let now = phc_now.clone();
            let fs2 = file_states.clone();
            batch.push(BatchStep {
                gap_ns: st.gap_ns as i128,
                latency_ns: st.latency_ns as i128,
                answer: st.answer.clone(),
                read_delays: st.read_delays.iter().map(|d| *d as i128).collect(),
                at_start: Some(Box::new(move || {
                    if let Some(f) = &change {
                        let _ = std::fs::remove_file(&pp);
                        let _ = std::fs::remove_dir(&pp);
                        match f {
                            PhcFile::Value(x) => std::fs::write(&pp, format!("{}\n", x)).unwrap(),
                            PhcFile::Missing => {}
                            PhcFile::Directory => std::fs::create_dir(&pp).unwrap(),
                        }
                        *now.borrow_mut() = f.clone();
                    }
                    fs2.borrow_mut().push(now.borrow().clone());
                })),
            });
        }
        if j - i > 1 {
            v.label("several-polls-in-one-loop-call");
        }
        let obs = poll_batch(&mut poller, phc.clone(), batch, &vc);
        let states = file_states.borrow().clone();
        if obs.len() != j - i {
            // iterations are told apart by their CLOCK_MONOTONIC_COARSE reading: an implementation
            // that takes its as-of reading differently cannot be followed by this harness, which is
            // a limit of the harness, not a verdict on the property
            v.fail(format!("HARNESS: polls {}..{}: {} iterations could be told apart (by their CLOCK_MONOTONIC_COARSE reading) / messages attributed for {} scripted polls", i, j, obs.len(), j - i));
            break;
        }
        for (k, o) in obs.into_iter().enumerate() {
            all_obs.push((i + k, o, states.get(k).cloned().unwrap_or(PhcFile::Missing)));
        }
        i = j;
    }
    for (i, obs, phc_now) in all_obs {
        let st = &case.steps[i];
        if let Some((_, lg)) = restarts_at.iter().find(|r| r.0 == i) {
            last_good = (*lg, *lg);
            ever_answered = false;
        }
        if case.steps[..=i].iter().rev().take_while(|s| !s.restart).count() > 0 && st.phc_change.is_some() {
            v.label("phc-file-changed-between-polls");
        }
        v.sub_evals += 1;
        let Some(msg) = obs.message.as_ref() else {
            v.fail(format!("poll {}: no message was sent to the writer", i));
            break;
        };
        let Some((qpos, _t0, _t1)) = obs.query else {
            v.fail(format!("poll {}: chronyd was not queried", i));
            break;
        };
        // reads after the query, in order
        let after: Vec<&ClockRead> = obs.reads.iter().skip(qpos).filter(|r| r.clock_id == CLK_MONO).collect();
        let (_, t_query, t_reply) = obs.query.unwrap();
        let iter_end = obs.reads.iter().map(|r| r.mono_ns).max().unwrap_or(t_reply).max(t_reply);
        // class demanded at a decision taken in [d_lo, d_hi]: Some(true) grace, Some(false) beyond, None either
        let demanded = |d_lo: i128, d_hi: i128, lg: (i128, i128)| -> Option<bool> {
            if d_hi - lg.0 < 5_000_000_000 {
                Some(true)
            } else if d_lo - lg.1 >= 5_000_000_000 {
                Some(false)
            } else {
                None
            }
        };
        let good = matches!(st.answer, Answer::Tracking(_));
        let expected: String;
        match &st.answer {
            Answer::Tracking(r) => {
                // the Instant read that follows a good answer becomes the start of the grace period
                last_good = match after.first() {
                    Some(tg) => (tg.value_ns, tg.value_ns),
                    None => {
                        v.label("no-clock-read-after-a-good-answer");
                        (t_query, iter_end)
                    }
                };
                ever_answered = true;
                let matches_phc = case.phc_refid == Some(r.ref_id);
                if case.phc_refid.is_some() && !matches_phc {
                    v.label("phc-refid-mismatch");
                    if let Some(c) = case.phc_refid {
                        if (c ^ r.ref_id).count_ones() <= 8 || c.swap_bytes() == r.ref_id || c >> 8 == r.ref_id || c & 0xff_ffff == r.ref_id {
                            v.label("phc-refid-near-miss");
                            v.nontrivial = true;
                        }
                    }
                }
                if matches_phc {
                    v.label("phc-refid-match");
                    match &phc_now {
                        PhcFile::Value(x) => {
                            expected = format!("data phc={}", x);
                            match msg {
                                Message::ClockErrorBoundData((t, p, _)) => {
                                    if *p != *x {
                                        v.fail(format!("poll {}: PHC is the reference (refid {:#x}) and its error bound file holds {}, but {} was attached", i, r.ref_id, x, p));
                                    }
                                    if *t != tracking_of(r) {
                                        v.fail(format!("poll {}: the tracking data forwarded differs from the reply", i));
                                    }
                                }
                                m => v.fail(format!("poll {}: expected {}, got {:?}", i, expected, m)),
                            }
                        }
                        _ => {
                            v.label("phc-read-failure");
                            v.nontrivial = true;
                            // the report is not used as a measurement; grace class from the clock reads
                            let (d_lo, d_hi) = match after.get(1) {
                                Some(tc) => (tc.value_ns, tc.value_ns),
                                None => (t_reply, iter_end),
                            };
                            match demanded(d_lo, d_hi, last_good) {
                                Some(within) => {
                                    let want = if within { Message::PhcErrorBoundRetrievalFailedGracePeriod } else { Message::PhcErrorBoundRetrievalFailed };
                                    if !within {
                                        v.label("phc-failure-beyond-grace");
                                    }
                                    if *msg != want {
                                        v.fail(format!("poll {}: PHC error bound unreadable {} ns after the last good answer: expected {:?}, got {:?}", i, d_lo - last_good.1, want, msg));
                                    }
                                }
                                None => {
                                    v.label("grace-class-depends-on-unobserved-instant");
                                    if !matches!(msg, Message::PhcErrorBoundRetrievalFailedGracePeriod | Message::PhcErrorBoundRetrievalFailed) {
                                        v.fail(format!("poll {}: PHC error bound unreadable: expected a PHC-failure message, got {:?}", i, msg));
                                    }
                                }
                            }
                        }
                    }
                } else {
                    match msg {
                        Message::ClockErrorBoundData((t, p, _)) => {
                            if *p != 0 {
                                v.fail(format!("poll {}: configured refid {:?} differs from the report's {:#x}, yet a PHC error bound of {} was attached", i, case.phc_refid, r.ref_id, p));
                            }
                            if *t != tracking_of(r) {
                                v.fail(format!("poll {}: the tracking data forwarded differs from the reply", i));
                            }
                        }
                        m => v.fail(format!("poll {}: a good answer (no PHC involved) produced {:?}", i, m)),
                    }
                }
            }
            _ => {
                // no usable answer: grace class from the Instant read of is_within_grace_period
                let (d_lo, d_hi) = match after.first() {
                    Some(tc) => (tc.value_ns, tc.value_ns),
                    None => (t_reply, iter_end),
                };
                let elapsed = d_lo - last_good.1;
                if (elapsed - 5_000_000_000).abs() <= 10_000_000 {
                    v.label("silence-within-10ms-of-grace-edge");
                    v.nontrivial = true;
                }
                if !matches!(st.answer, Answer::Silence) {
                    v.label("bad-reply");
                }
                match demanded(d_lo, d_hi, last_good) {
                    Some(within) => {
                        let want = if within { Message::ChronyNotRespondingGracePeriod } else { Message::ChronyNotResponding };
                        if !ever_answered {
                            v.label("silence-before-any-answer");
                            v.nontrivial = true;
                            if within {
                                v.fail(format!("poll {}: no answer was ever received since the daemon started, yet the model says within grace (elapsed {} ns)", i, elapsed));
                            }
                        }
                        if within {
                            v.label("outage-within-grace");
                        } else {
                            v.label("outage-beyond-grace");
                        }
                        if *msg != want {
                            v.fail(format!(
                                "poll {}: chronyd gave no usable answer {} ns after the last good one{}: expected {:?}, got {:?}",
                                i,
                                elapsed,
                                if ever_answered { "" } else { " (none since start: 5 s before construction)" },
                                want,
                                msg
                            ));
                        }
                    }
                    None => {
                        v.label("grace-class-depends-on-unobserved-instant");
                        if !matches!(msg, Message::ChronyNotRespondingGracePeriod | Message::ChronyNotResponding) {
                            v.fail(format!("poll {}: chronyd gave no usable answer: expected a not-responding message, got {:?}", i, msg));
                        }
                    }
                }
            }
        }
        let _ = good;
    }
    let _ = std::fs::remove_file(&phc_path);
    let _ = std::fs::remove_dir(&phc_path);
    v
}

impl Property for C13 {
    type Case = PollCase;
    const ID: &'static str = "C13";
    fn rule() -> String {
        "cases = a daemon start at a random uptime, PHC configuration (none | refid PHC0 | other refid), PHC error-bound file (value | missing | unreadable; it may change to another state before any poll, while chronyd keeps reporting the same reference time), then 1..40 polls: gap to the previous poll (1 s, 4.999999999 s, 5 s, 5 s + 1 ns, +-10 ms around 5 s, random), chronyd answer (Tracking with refid PHC0 / byte-swapped / off by one / truncated / 0 / random; silence; malformed reply; reply of another type), query latency, generated pre-emption delays on the individual clock reads, daemon restarts. Real ClockErrorBoundPoller, get_tracking, is_within_grace_period and one real loop iteration per poll; the query seam returns the scripted reply (deserialised by chrony-candm). Oracle: grace-period model replayed on the logged clock reads (last good answer = the monotonic read that followed it, initially 5 s before construction; no answer at reading t => grace message iff t - last_good < 5 s; where the implementation makes no such read the instant is only known to lie between the request and the end of the iteration, and a class is demanded only if it is the same over that span) and the PHC rule (value attached exactly when refids are equal; unreadable file => PHC-failure message of the right class and no measurement). Non-trivial: a silence within 10 ms of the 5 s edge, a refid near-miss, a PHC read failure, or silence before any answer.".into()
    }
    fn cases(tier: Tier) -> u64 {
        match tier {
            Tier::Quick => 1_000_000,
            Tier::Thorough => 20_000_000,
        }
    }
    fn strategy(_tier: Tier) -> BoxedStrategy<PollCase> {
        c13_strategy()
    }
    fn check(case: &PollCase, env: &mut Env) -> Verdict {
        check_c13_case(case, env)
    }
    fn floors() -> Vec<(&'static str, f64)> {
        vec![
            ("silence-within-10ms-of-grace-edge", 0.2),
            ("phc-refid-near-miss", 0.05),
            ("phc-read-failure", 0.05),
            ("silence-before-any-answer", 0.2),
            ("outage-within-grace", 0.3),
            ("outage-beyond-grace", 0.3),
            ("phc-refid-match", 0.2),
            ("phc-file-changed-between-polls", 0.2),
            ("daemon-restart", 0.2),
        ]
    }
    fn max_shrink_iters(_t: Tier) -> u32 {
        3000
    }
    fn extra(tier: Tier, _env: &mut Env, _seed: u64) -> Extra {
        // whole-process scripts: the unmodified release binary against a fake chronyd socket in a
        // private mount namespace, in real time (all scripts run concurrently)
        let mut ex = Extra::default();
        if !std::path::Path::new(crate::props::process::DAEMON_BIN).exists() {
            ex.label("whole-process:daemon-binary-not-built");
            return ex;
        }
        let scripts = crate::props::wholeproc::standard_scripts(tier == Tier::Thorough);
        let results: Vec<(crate::props::wholeproc::Script, Result<u64, String>)> = std::thread::scope(|sc| {
            let hs: Vec<_> = scripts
                .iter()
                .cloned()
                .map(|s| {
                    sc.spawn(move || {
                        let r = crate::props::wholeproc::run_script(&s);
                        tick();
                        (s, r)
                    })
                })
                .collect();
            hs.into_iter().filter_map(|h| h.join().ok()).collect()
        });
        for (s, r) in results {
            match r {
                Ok(n) => {
                    ex.evaluations += n;
                    ex.label("whole-process:script-ok");
                    ex.nontrivial_hashes.push(hash_str(&serde_json::to_string(&s).unwrap()));
                    if ex.samples.is_empty() {
                        ex.samples.push(serde_json::json!({"whole_process_script": s, "status_samples_judged": n}));
                    }
                }
                Err(m) if m.starts_with("harness") => ex.label("whole-process:inconclusive"),
                Err(m) => {
                    if ex.failure.is_none() {
                        ex.failure = Some((format!("whole-process script {:?}: {}", s, m), serde_json::json!({"whole_process_script": s})));
                    }
                }
            }
        }
        ex
    }
}

// ------------------------------------------------------------------------------------------------
// C12

#[derive(Clone, Debug, Serialize, Deserialize, PartialEq)]
pub struct OrderCase {
    pub uptime_ns: i64,
    /// daemon side: delays before each clock read of the iteration, query latency, answer
    pub poll_delays: Vec<i64>,
    pub latency_ns: i64,
    pub answer: Answer,
    /// client side: record, base readings, delays before the realtime read and between the reads
    pub rec: crate::layout::Rec,
    pub age_ns: i64,
    pub pre_real_delay: i64,
    pub between_delay: i64,
}

pub struct C12;

fn delay_strategy() -> BoxedStrategy<i64> {
    prop_oneof![3 => Just(0i64), 1 => Just(1i64), 2 => 0i64..1_000_000, 2 => 0i64..2_000_000_000, 1 => 0i64..100_000_000_000].boxed()
}

fn c12_strategy() -> BoxedStrategy<OrderCase> {
    (
        1_000_000_000i64..10_000_000_000_000,
        prop::collection::vec(delay_strategy(), 0..5),
        delay_strategy(),
        prop_oneof![4 => report_strategy().prop_map(Answer::Tracking), 2 => Just(Answer::Silence), 1 => Just(Answer::WrongType)],
        (crate::props::client::bound_strategy(), crate::props::client::drift_ok_strategy(), 0i32..3),
        0i64..100_000_000_000,
        (delay_strategy(), delay_strategy()),
    )
        .prop_map(|(uptime_ns, poll_delays, latency_ns, answer, (bound, drift, status), age_ns, (pre_real_delay, between_delay))| OrderCase {
            uptime_ns,
            poll_delays,
            latency_ns,
            answer,
            rec: crate::layout::Rec {
                as_of_s: uptime_ns / 1_000_000_000,
                as_of_ns: uptime_ns % 1_000_000_000,
                void_s: uptime_ns / 1_000_000_000 + 1000,
                void_ns: 0,
                bound: bound.min(1 << 50),
                drift,
                reserved: 0,
                status,
            },
            age_ns,
            pre_real_delay,
            between_delay,
        })
        .boxed()
}

fn check_c12_case(case: &OrderCase, env: &mut Env) -> Verdict {
    let mut v = Verdict::default();
    // ---------------- daemon side, several iterations of one loop run: a report must never be
    // forwarded with an as-of instant read after the request that produced it, also when the loop
    // carries something over from one iteration to the next (PHC read failing, then succeeding)
    if let Answer::Tracking(r1) = &case.answer {
        let phc_path = env.fresh_path("c12-phc");
        let _ = std::fs::remove_file(&phc_path);
        let vc = VClock::new(case.uptime_ns as i128, 1_700_000_000_000_000_000);
        let _g = vc.install();
        let mut poller = dv::Poller::default();
        let _ = vc.take_log();
        let phc = Some(PhcInfo {
            refid: r1.ref_id,
            sysfs_error_bound_path: phc_path.clone(),
        });
        let mut reports = vec![r1.clone(), r1.clone(), r1.clone()];
        for (k, r) in reports.iter_mut().enumerate() {
            r.ref_time_ns += k as i64; // tell the three replies apart
        }
        let p2 = phc_path.clone();
        let gap = 1_000_000_000 + (case.age_ns as i128 % 3_000_000_000);
        let steps = vec![
            BatchStep { gap_ns: 0, latency_ns: case.latency_ns as i128, answer: Answer::Tracking(reports[0].clone()), read_delays: vec![], at_start: None },
            BatchStep {
                gap_ns: gap,
                latency_ns: 0,
                answer: Answer::Tracking(reports[1].clone()),
                read_delays: case.poll_delays.iter().map(|d| *d as i128).collect(),
                at_start: Some(Box::new(move || {
                    let _ = std::fs::write(&p2, b"4242\n");
                })),
            },
            BatchStep { gap_ns: 1_000_000_000, latency_ns: 0, answer: Answer::Tracking(reports[2].clone()), read_delays: vec![], at_start: None },
        ];
        let obs = poll_batch(&mut poller, phc, steps, &vc);
        let _ = std::fs::remove_file(&phc_path);
        v.sub_evals += 1;
        v.label("phc-read-fails-then-succeeds-across-iterations");
        let requested_at: Vec<Option<i128>> = obs.iter().map(|o| o.query.map(|q| q.1)).collect();
        for (k, o) in obs.iter().enumerate() {
            if let Some(Message::ClockErrorBoundData((t, _, as_of))) = &o.message {
                let a = crate::clock::timespec_to_ns(as_of);
                match reports.iter().position(|r| tracking_of(r) == *t) {
                    Some(j) => match requested_at.get(j).copied().flatten() {
                        Some(tq) => {
                            if a > tq {
                                v.fail(format!(
                                    "iteration {}: the report forwarded to the writer was requested from chronyd at {} (iteration {}), but the as-of instant attached to it, {}, was read after that request",
                                    k, tq, j, a
                                ));
                            }
                        }
                        None => v.fail(format!("iteration {}: the report forwarded is the scripted reply {}, which chronyd was never asked for", k, j)),
                    },
                    None => v.fail(format!("iteration {}: the tracking data forwarded matches none of the replies", k)),
                }
            }
        }
    }
    // ---------------- daemon side
    let vc = VClock::new(case.uptime_ns as i128, 1_700_000_000_000_000_000);
    {
        let _g = vc.install();
        let mut poller = dv::Poller::default();
        let _ = vc.take_log();
        vc.push_delays(&case.poll_delays.iter().map(|d| *d as i128).collect::<Vec<_>>());
        let t_start = vc.mono();
        let obs = poll_once(&mut poller, None, &case.answer, case.latency_ns as i128, &vc);
        vc.clear_delays();
        if case.latency_ns > 0 || case.poll_delays.iter().any(|d| *d > 0) {
            v.label("daemon-delay-inserted");
            v.nontrivial = true;
        }
        match (&obs.messages.first(), obs.query) {
            (Some(Message::ClockErrorBoundData((_, _, as_of))), Some((qpos, t_query, t_reply))) => {
                v.label("daemon-report-emitted");
                let a = crate::clock::timespec_to_ns(as_of);
                // as_of must not be later than a monotonic(-coarse) reading taken before the query (an
                // implementation that back-dates the reading is only more pessimistic)
                let before: Vec<&ClockRead> = obs.reads.iter().take(qpos).filter(|r| r.clock_id == CLK_COARSE || r.clock_id == CLK_MONO).collect();
                if before.is_empty() || !before.iter().any(|r| r.value_ns >= a) {
                    let all: Vec<(i32, i128)> = obs.reads.iter().map(|r| (r.clock_id, r.value_ns)).collect();
                    v.fail(format!(
                        "the as-of instant {} attached to the report is not a monotonic-clock reading taken before the request to chronyd (query issued at log position {}, virtual time {}; reads: {:?})",
                        a, qpos, t_query, all
                    ));
                }
                if a > t_query {
                    v.fail(format!("as-of {} is later than the instant {} at which chronyd was asked", a, t_query));
                }
                if a > t_reply {
                    v.fail(format!("as-of {} is later than the instant {} at which the reply was generated", a, t_reply));
                }
                if a < t_start - 1_000_000_000 {
                    v.fail(format!("as-of {} precedes the start of the iteration {} by more than a second", a, t_start));
                }
                // the pairing must survive publication: the record keeps this report's bound through
                // later non-synchronised answers, and with it the as-of reading taken before the
                // request that produced the bound (a later reading would hide the drift in between)
                if let Some(Message::ClockErrorBoundData((tracking, phc, as_of))) = obs.messages.first() {
                    let sink = RecSink::default();
                    let mut up = dv::Updater::new(sink.clone(), 1000);
                    up.process_clock_update(tracking.clone(), *phc, *as_of);
                    let first = sink.0.borrow().last().copied().unwrap_or_default();
                    if first.status == 1 {
                        v.label("report-followed-through-publication");
                        let later = a + 1_000_000_000 + case.age_ns as i128;
                        let mut t2 = tracking.clone();
                        t2.leap_status = 3;
                        up.process_clock_update(t2, *phc, ts(later));
                        up.process_missing_clock_update(true);
                        v.sub_evals += 1;
                        let last = sink.0.borrow().last().copied().unwrap_or_default();
                        if last.bound == first.bound && last.as_of_ns_total() > t_query {
                            v.fail(format!(
                                "the published record still carries the bound {} of the report requested at {}, but its as-of instant {} was read after that request (after a later unsynchronised answer polled at {})",
                                last.bound,
                                t_query,
                                last.as_of_ns_total(),
                                later
                            ));
                        }
                    }
                }
            }
            (Some(Message::ClockErrorBoundData(_)), None) => v.fail("a report was emitted without asking chronyd".into()),
            _ => {}
        }
    }
    // ---------------- client side
    let rec = &case.rec;
    let mono0 = rec.as_of_ns_total() + case.age_ns as i128;
    let real0 = 1_700_000_000_000_000_000i128 + 12_345;
    let run = |pre: i128, between: i128| -> Result<(Vec<ClockRead>, NowOut), String> {
        let vc = VClock::new(mono0, real0);
        let _g = vc.install();
        vc.push_delays(&[pre, between]);
        let ceb = rec.to_ceb();
        let out = match ceb.now() {
            Ok((e, l, s)) => NowOut::Ok {
                earliest_ns: crate::clock::timespec_to_ns(&e),
                latest_ns: crate::clock::timespec_to_ns(&l),
                status: crate::layout::status_to_i32(s),
            },
            Err(e) => crate::props::client::shm_err_to_out(e),
        };
        Ok((vc.take_log(), out))
    };
    let (log_a, out_a) = match run(case.pre_real_delay as i128, 0) {
        Ok(x) => x,
        Err(m) => {
            v.fail(m);
            return v;
        }
    };
    let (log_b, out_b) = match run(case.pre_real_delay as i128, case.between_delay as i128) {
        Ok(x) => x,
        Err(m) => {
            v.fail(m);
            return v;
        }
    };
    v.sub_evals += 2;
    if case.between_delay > 0 {
        v.label("client-delay-inserted");
        v.nontrivial = true;
    }
    let mut metamorphic_applies = true;
    for (name, log) in [("without delay", &log_a), ("with delay", &log_b)] {
        let ids: Vec<i32> = log.iter().map(|r| r.clock_id).collect();
        let first_real = ids.iter().position(|c| crate::clock::is_realtime(*c));
        let first_mono = ids.iter().position(|c| *c == CLK_COARSE || *c == CLK_MONO);
        match (first_real, first_mono) {
            (Some(r), Some(m)) => {
                if r > m {
                    v.fail(format!("now() ({}) read the monotonic clock before the realtime clock (clock ids in order: {:?})", name, ids));
                }
            }
            _ => v.fail(format!("now() ({}) did not read both clocks (clock ids: {:?})", name, ids)),
        }
        if ids.len() != 2 {
            // the delays are inserted by position (before the 1st and the 2nd read): with another
            // number of reads the metamorphic relation below says nothing; only the order is judged
            v.label("client-made-other-than-two-clock-reads");
            metamorphic_applies = false;
        }
    }
    if !metamorphic_applies {
        return v;
    }
    match (&out_a, &out_b) {
        (NowOut::Ok { earliest_ns: ea, latest_ns: la, .. }, NowOut::Ok { earliest_ns: eb, latest_ns: lb, .. }) => {
            // both runs read the same realtime value
            let real_a = log_a.iter().find(|r| crate::clock::is_realtime(r.clock_id)).map(|r| r.value_ns).unwrap_or(0);
            let real_b = log_b.iter().find(|r| crate::clock::is_realtime(r.clock_id)).map(|r| r.value_ns).unwrap_or(0);
            if real_a != real_b {
                v.fail(format!("harness: realtime readings differ ({} vs {})", real_a, real_b));
            }
            let ha = la - real_a;
            let hb = lb - real_b;
            if real_a - ea != ha || real_b - eb != hb {
                v.fail("interval not centred on the realtime reading".into());
            }
            if hb < ha {
                v.fail(format!("a delay of {} ns between the two clock reads shrank the half-width from {} to {}", case.between_delay, ha, hb));
            }
            // exactly drift * d more (C05 tolerance), judged through the absolute law on both
            let age_a = case.age_ns as i128 + case.pre_real_delay as i128;
            let age_b = age_a + case.between_delay as i128;
            if let Err(m) = check_half_width(rec, age_a, ha) {
                v.fail(format!("without delay: {}", m));
            }
            if let Err(m) = check_half_width(rec, age_b, hb) {
                v.fail(format!("with a delay of {} ns between the reads: {}", case.between_delay, m));
            }
        }
        (a, b) => v.fail(format!("now() failed on a fresh record: {:?} / {:?}", a, b)),
    }
    v
}

impl Property for C12 {
    type Case = OrderCase;
    const ID: &'static str = "C12";
    fn rule() -> String {
        "cases = (daemon side) one real poller iteration under a virtual clock that advances by a generated delay before every clock read (0, 1 ns, us..100 s) with a scripted chronyd reply after a generated latency; (client side) a generated record read by the real now() with generated delays before the realtime read and between the two reads, executed twice (with and without the second delay); a synchronised (report, as-of) pair is also fed to the real updater followed by a non-synchronised answer polled 1..101 s later: the record that still carries the report's bound must carry an as-of instant not later than the report's request. Oracle from the logged clock reads and the query-seam log: the as-of of the emitted report is not later than a monotonic(-coarse) read whose log position precedes the query (and not more than 1 s before the iteration started), hence <= the instant the request was issued; now() reads CLOCK_REALTIME before the monotonic clock; inserting delay d between the client's reads never shrinks the half-width and yields bound + drift*(age+d) (C05 tolerance). Non-trivial: a positive delay was inserted between the ordered pair.".into()
    }
    fn cases(tier: Tier) -> u64 {
        match tier {
            Tier::Quick => 2_000_000,
            Tier::Thorough => 40_000_000,
        }
    }
    fn strategy(_tier: Tier) -> BoxedStrategy<OrderCase> {
        c12_strategy()
    }
    fn check(case: &OrderCase, env: &mut Env) -> Verdict {
        check_c12_case(case, env)
    }
    fn floors() -> Vec<(&'static str, f64)> {
        vec![("daemon-delay-inserted", 0.5), ("client-delay-inserted", 0.5), ("daemon-report-emitted", 0.4)]
    }
}
