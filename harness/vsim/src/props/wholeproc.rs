//! C13, whole-process variant: the unmodified release `clockbound` binary in a private mount
//! namespace against a scripted fake chronyd bound to /run/chrony/chronyd.sock. Runs in real time,
//! so its oracle only uses windows that are at least 1.5 s away from the 5 s edge.

use crate::daemon::{wire_reply_bytes, WireFloat, WireReport};
use crate::layout::*;
use crate::props::process::{in_private_run, DAEMON_BIN};
use serde::{Deserialize, Serialize};
use std::os::unix::net::UnixDatagram;
use std::process::{Command, Stdio};
use std::time::Duration;

#[derive(Clone, Debug, Serialize, Deserialize, PartialEq)]
pub enum Mode {
    /// answer every request with a synchronised tracking report
    Answer,
    /// answer with leap status 3 (unsynchronised)
    AnswerUnsync,
    /// receive requests, never reply (the client times out: 3 x 1 s per poll)
    Silent,
    /// the socket file is gone (queries fail at once: one poll per second)
    Absent,
}

#[derive(Clone, Debug, Serialize, Deserialize, PartialEq)]
pub struct Script {
    /// (duration in ms, mode)
    pub phases: Vec<(u32, Mode)>,
}

#[derive(Clone, Debug, Serialize, Deserialize)]
pub struct Sample {
    pub t_ms: u64,
    /// -1 no usable segment yet
    pub status: i32,
    pub generation: u16,
    pub as_of_ns: i64,
}

fn now_s() -> f64 {
    crate::clock::real_mono_s()
}

const SOCK: &str = "/run/chrony/chronyd.sock";

fn bind_sock() -> Option<UnixDatagram> {
    let _ = std::fs::create_dir_all("/run/chrony");
    let _ = std::fs::remove_file(SOCK);
    let s = UnixDatagram::bind(SOCK).ok()?;
    let _ = s.set_read_timeout(Some(Duration::from_millis(20)));
    Some(s)
}

/// Child entry (already inside the private namespace): runs the fake chronyd and the daemon, prints
/// the sampled timeline as JSON.
pub fn c13_ns_child(spec: &str) -> i32 {
    let script: Script = match serde_json::from_str(spec) {
        Ok(s) => s,
        Err(e) => {
            println!("{{\"error\":\"bad script: {}\"}}", e);
            return 2;
        }
    };
    let mut sock = if matches!(script.phases.first(), Some((_, Mode::Absent))) { None } else { bind_sock() };
    let mut daemon = match Command::new(DAEMON_BIN).stdin(Stdio::null()).stdout(Stdio::null()).stderr(Stdio::null()).spawn() {
        Ok(d) => d,
        Err(e) => {
            println!("{{\"error\":\"cannot start the daemon: {}\"}}", e);
            return 2;
        }
    };
    let t0 = now_s();
    let mut samples: Vec<Sample> = vec![];
    let mut phase_starts: Vec<u64> = vec![];
    let mut last_sample = -1.0f64;
    let mut buf = [0u8; 2048];
    for (dur_ms, mode) in &script.phases {
        let start = now_s();
        phase_starts.push(((start - t0) * 1000.0) as u64);
        match mode {
            Mode::Absent => {
                sock = None;
                let _ = std::fs::remove_file(SOCK);
            }
            _ => {
                if sock.is_none() {
                    sock = bind_sock();
                }
            }
        }
        while (now_s() - start) * 1000.0 < *dur_ms as f64 {
            if let Some(s) = &sock {
                if let Ok((n, from)) = s.recv_from(&mut buf) {
                    if n >= 12 && matches!(mode, Mode::Answer | Mode::AnswerUnsync) {
                        let seq = u32::from_be_bytes([buf[8], buf[9], buf[10], buf[11]]);
                        let now = std::time::SystemTime::now().duration_since(std::time::UNIX_EPOCH).unwrap();
                        let r = WireReport {
                            ref_id: 0x7f000001,
                            leap: if *mode == Mode::Answer { 0 } else { 3 },
                            ref_time_ns: now.as_nanos() as i64,
                            offset: WireFloat { exp: -9, coef: -4_000_000 },
                            delay: WireFloat { exp: -8, coef: 5_000_000 },
                            disp: WireFloat { exp: -10, coef: 6_000_000 },
                            interval: WireFloat::pow2(4),
                        };
                        let bytes = wire_reply_bytes(&r, seq);
                        if let Some(p) = from.as_pathname() {
                            let _ = s.send_to(&bytes, p);
                        }
                    }
                }
            } else {
                std::thread::sleep(Duration::from_millis(20));
            }
            let t = now_s() - t0;
            if t - last_sample >= 0.05 {
                last_sample = t;
                let b = std::fs::read("/run/clockbound/shm").unwrap_or_default();
                let (status, generation, as_of) = if b.len() >= SEG_LEN {
                    let h = Hdr::decode(&b[..HEADER_LEN]);
                    let r = Rec::decode(&b[HEADER_LEN..SEG_LEN]);
                    if h.generation != 0 && h.generation & 1 == 0 && h.version != 0 {
                        (r.status, h.generation, r.as_of_ns_total() as i64)
                    } else {
                        (-1, h.generation, 0)
                    }
                } else {
                    (-1, 0, 0)
                };
                samples.push(Sample {
                    t_ms: (t * 1000.0) as u64,
                    status,
                    generation,
                    as_of_ns: as_of,
                });
            }
        }
    }
    let alive = matches!(daemon.try_wait(), Ok(None));
    let _ = daemon.kill();
    let _ = daemon.wait();
    println!("{}", serde_json::json!({"samples": samples, "phase_starts_ms": phase_starts, "daemon_alive_at_end": alive}));
    0
}

/// Run one script; returns Err(message) on a violation, Ok(number of samples judged) otherwise.
pub fn run_script(script: &Script) -> Result<u64, String> {
    let exe = std::env::current_exe().map_err(|e| e.to_string())?;
    let mut cmd = Command::new(exe);
    cmd.arg("c13-ns").arg(serde_json::to_string(script).unwrap());
    cmd.stdin(Stdio::null()).stdout(Stdio::piped()).stderr(Stdio::null());
    in_private_run(&mut cmd);
    let out = cmd.output().map_err(|e| format!("harness: cannot start the namespace child: {}", e))?;
    let text = String::from_utf8_lossy(&out.stdout);
    let v: serde_json::Value = serde_json::from_str(text.lines().last().unwrap_or("")).map_err(|e| format!("harness: child output not understood ({}): {:?}", e, text))?;
    if let Some(e) = v.get("error") {
        return Err(format!("harness: {}", e));
    }
    if v["daemon_alive_at_end"] != serde_json::json!(true) {
        return Err("the daemon exited during the script".into());
    }
    let samples: Vec<Sample> = serde_json::from_value(v["samples"].clone()).map_err(|e| e.to_string())?;
    let starts: Vec<u64> = serde_json::from_value(v["phase_starts_ms"].clone()).map_err(|e| e.to_string())?;
    // time of the last good (synchronised or unsynchronised) answer before t, per the script
    let mut judged = 0u64;
    for s in &samples {
        let t = s.t_ms as f64 / 1000.0;
        // locate the phase
        let mut k = 0;
        for (i, st) in starts.iter().enumerate() {
            if s.t_ms >= *st {
                k = i;
            }
        }
        let (ref _dur, ref mode) = script.phases[k];
        let phase_t = t - starts[k] as f64 / 1000.0;
        // was any synchronised answer given before this phase? any answer at all?
        let sync_before = script.phases[..k].iter().any(|p| p.1 == Mode::Answer);
        let answered_before = script.phases[..k].iter().any(|p| matches!(p.1, Mode::Answer | Mode::AnswerUnsync));
        // outage length so far: this phase plus directly preceding non-answering phases
        let mut outage = phase_t;
        let mut j = k;
        while j > 0 && matches!(script.phases[j - 1].1, Mode::Silent | Mode::Absent) && matches!(mode, Mode::Silent | Mode::Absent) {
            j -= 1;
            outage += script.phases[j].0 as f64 / 1000.0;
        }
        // one poll cycle: 1 s sleep (+ 3 s of timeouts when silent), plus 1.5 s of margin
        let cycle = if script.phases[j..=k].iter().any(|p| p.1 == Mode::Silent) { 4.0 } else { 1.0 } + 1.5;
        match mode {
            Mode::Answer => {
                if phase_t > cycle + 1.0 && s.status != 1 {
                    return Err(format!("t={:.2}s: chronyd has been answering synchronised reports for {:.1} s, published status is {}", t, phase_t, s.status));
                }
                judged += 1;
            }
            Mode::AnswerUnsync => {
                if phase_t > cycle + 1.0 {
                    let want = if sync_before { 2 } else { 0 };
                    if s.status != want {
                        return Err(format!("t={:.2}s: chronyd has been answering leap 3 for {:.1} s ({} synchronised report before): published status {} instead of {}", t, phase_t, if sync_before { "a" } else { "no" }, s.status, want));
                    }
                    judged += 1;
                }
            }
            Mode::Silent | Mode::Absent => {
                if !answered_before && s.status > 0 {
                    return Err(format!("t={:.2}s: no answer was ever received from chronyd since the daemon started, yet status {} is published", t, s.status));
                }
                if outage > 5.0 + cycle && s.status > 0 {
                    return Err(format!("t={:.2}s: chronyd has been unreachable for {:.1} s (> 5 s grace + one poll cycle), published status is still {}", t, outage, s.status));
                }
                if sync_before && answered_before && *mode == Mode::Absent && outage > cycle && outage < 5.0 - 1.5 && script.phases[k - 1].1 == Mode::Answer && s.status != 2 {
                    return Err(format!("t={:.2}s: chronyd vanished {:.1} s ago (within the 5 s grace period) after synchronised reports: published status {} instead of FreeRunning", t, outage, s.status));
                }
                judged += 1;
            }
        }
    }
    Ok(judged)
}

pub fn standard_scripts(thorough: bool) -> Vec<Script> {
    use Mode::*;
    let mut v = vec![
        Script { phases: vec![(3000, Absent), (5000, Answer), (9000, Absent)] },
        Script { phases: vec![(4500, Silent), (5000, Answer), (12000, Silent)] },
        Script { phases: vec![(5000, Answer), (3500, Absent), (5000, Answer)] },
        Script { phases: vec![(4000, AnswerUnsync), (5000, Answer), (5000, AnswerUnsync), (8000, Absent)] },
    ];
    if thorough {
        for a in [2500u32, 3500, 6500, 8000] {
            v.push(Script { phases: vec![(5000, Answer), (a, Absent), (4000, Answer), (a + 3000, Silent), (4000, Answer)] });
            v.push(Script { phases: vec![(a, Silent), (5000, AnswerUnsync), (a, Absent), (5000, Answer), (11000, Absent)] });
        }
    }
    v
}
