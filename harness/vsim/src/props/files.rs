//! C16 (segment files are validated on open, and repaired by the daemon) and C17 (segment layout
//! and C ABI match their descriptions). No hooks: real files on tmpfs, the real ShmReader /
//! ShmWriter / Rust client, and the C library through the driver process.

use crate::cdrv::CDriver;
use crate::clock::VClock;
use crate::layout::*;
use crate::model::*;
use crate::props::client::{client_err_to_out, shm_err_to_out};
use crate::runner::*;
use clock_bound_client::ClockBoundClient;
use clock_bound_shm::{ShmReader, ShmWrite};
use proptest::prelude::*;
use serde::{Deserialize, Serialize};
use std::ffi::CString;
use std::os::unix::fs::MetadataExt;
use std::path::{Path, PathBuf};

#[derive(Clone, Debug, Serialize, Deserialize, PartialEq)]
pub enum PathKind {
    /// a regular file with the content
    File,
    /// a symbolic link to a regular file with the content
    SymlinkToFile,
    Missing,
    MissingParent,
    /// a path whose parent is a regular file
    ParentIsFile,
    Directory,
    SymlinkToDirectory,
    DanglingSymlink,
    DevNull,
    SymlinkToDevNull,
}

#[derive(Clone, Debug, Serialize, Deserialize, PartialEq)]
pub struct FileCase {
    pub kind: PathKind,
    pub content: Vec<u8>,
    /// record published by the daemon in the repair part
    pub rec: Rec,
    pub use_c: bool,
}

fn rec_strategy() -> BoxedStrategy<Rec> {
    (any::<i64>(), 0i64..1_000_000_000, any::<i64>(), 0i64..1_000_000_000, any::<i64>(), any::<u32>(), any::<u32>(), 0i32..3)
        .prop_map(|(a, b, c, d, e, f, g, h)| Rec {
            as_of_s: a,
            as_of_ns: b,
            void_s: c,
            void_ns: d,
            bound: e,
            drift: f,
            reserved: g,
            status: h,
        })
        .boxed()
}

fn content_strategy() -> BoxedStrategy<Vec<u8>> {
    let size_edges = prop_oneof![
        Just(0u32), Just(15), Just(16), Just(17), Just(71), Just(72), Just(73), Just(400), Just(4096), Just(1 << 31), Just(u32::MAX), any::<u32>()
    ];
    let small16 = prop_oneof![Just(0u16), Just(1), Just(2), Just(3), Just(65535), Just(65534), any::<u16>()];
    let magic = prop_oneof![
        6 => Just((MAGIC0, MAGIC1)),
        1 => (0u32..32).prop_map(|b| (MAGIC0 ^ (1 << b), MAGIC1)),
        1 => (0u32..32).prop_map(|b| (MAGIC0, MAGIC1 ^ (1 << b))),
        1 => Just((MAGIC1, MAGIC0)),
        1 => Just((MAGIC0.swap_bytes(), MAGIC1.swap_bytes())),
        1 => any::<(u32, u32)>(),
    ];
    let header = (magic, prop_oneof![4 => Just(72u32), 4 => size_edges], small16.clone(), small16).prop_map(|((m0, m1), size, version, generation)| Hdr {
        magic0: m0,
        magic1: m1,
        size,
        version,
        generation,
    });
    let body = prop_oneof![
        3 => rec_strategy().prop_map(|r| r.encode().to_vec()),
        1 => prop::collection::vec(any::<u8>(), 56..57),
        1 => Just(vec![0u8; 56]),
    ];
    let full = (header, body).prop_map(|(h, b)| {
        let mut v = h.encode().to_vec();
        v.extend_from_slice(&b);
        v
    });
    prop_oneof![
        // structured mutation, full length
        4 => full.clone(),
        // truncation at every length 0..=80 (extension with zeros past 72)
        4 => (full.clone(), 0usize..=80).prop_map(|(mut v, n)| { v.resize(n, 0); v }),
        // extension with garbage
        1 => (full, prop::collection::vec(any::<u8>(), 1..200)).prop_map(|(mut v, e)| { v.extend(e); v }),
        // pure random bytes
        1 => prop::collection::vec(any::<u8>(), 0..120),
        1 => Just(vec![]),
        1 => Just(b"foobarbaz".to_vec()),
    ]
    .boxed()
}

fn c16_strategy() -> BoxedStrategy<FileCase> {
    (
        prop_oneof![
            14 => Just(PathKind::File),
            2 => Just(PathKind::SymlinkToFile),
            1 => Just(PathKind::Missing),
            1 => Just(PathKind::MissingParent),
            1 => Just(PathKind::ParentIsFile),
            1 => Just(PathKind::Directory),
            1 => Just(PathKind::SymlinkToDirectory),
            1 => Just(PathKind::DanglingSymlink),
            1 => Just(PathKind::DevNull),
            1 => Just(PathKind::SymlinkToDevNull),
        ],
        content_strategy(),
        rec_strategy(),
        prop::bool::weighted(0.2),
    )
        .prop_map(|(kind, content, rec, use_c)| FileCase { kind, content, rec, use_c })
        .boxed()
}

/// Materialise the path; returns (path to open, directory to clean up).
fn materialise(case: &FileCase, env: &mut Env) -> (PathBuf, PathBuf) {
    let dir = env.fresh_path("c16");
    let _ = std::fs::remove_dir_all(&dir);
    std::fs::create_dir_all(&dir).unwrap();
    let target = dir.join("target");
    let p = dir.join("shm");
    match case.kind {
        PathKind::File => std::fs::write(&p, &case.content).unwrap(),
        PathKind::SymlinkToFile => {
            std::fs::write(&target, &case.content).unwrap();
            std::os::unix::fs::symlink(&target, &p).unwrap();
        }
        PathKind::Missing => {}
        PathKind::MissingParent => return (dir.join("nodir").join("shm"), dir),
        PathKind::ParentIsFile => {
            std::fs::write(&target, b"x").unwrap();
            return (target.join("shm"), dir);
        }
        PathKind::Directory => std::fs::create_dir(&p).unwrap(),
        PathKind::SymlinkToDirectory => {
            std::fs::create_dir(&target).unwrap();
            std::os::unix::fs::symlink(&target, &p).unwrap();
        }
        PathKind::DanglingSymlink => std::os::unix::fs::symlink(dir.join("nothing"), &p).unwrap(),
        PathKind::DevNull => return (PathBuf::from("/dev/null"), dir),
        PathKind::SymlinkToDevNull => std::os::unix::fs::symlink("/dev/null", &p).unwrap(),
    }
    (p, dir)
}

/// Expected outcome of opening, from the C16 statement.
#[derive(Debug, Clone, PartialEq)]
enum Expect {
    Ok,
    NotInitialized,
    Malformed,
    /// failing system call: errno and the prefix of the detail string
    Syscall(i32, &'static str),
}

fn expected_open(case: &FileCase) -> Expect {
    match case.kind {
        PathKind::File | PathKind::SymlinkToFile => match reference_open_verdict(&case.content) {
            OpenVerdict::Ok => Expect::Ok,
            OpenVerdict::NotInitialized => Expect::NotInitialized,
            OpenVerdict::Malformed => Expect::Malformed,
        },
        PathKind::Missing | PathKind::MissingParent | PathKind::DanglingSymlink => Expect::Syscall(libc::ENOENT, "open"),
        PathKind::ParentIsFile => Expect::Syscall(libc::ENOTDIR, "open"),
        PathKind::Directory | PathKind::SymlinkToDirectory => Expect::Syscall(libc::EISDIR, "read"),
        PathKind::DevNull | PathKind::SymlinkToDevNull => Expect::NotInitialized,
    }
}

fn judge_open(name: &str, got: &Result<(), NowOut>, want: &Expect, huge_size: bool) -> Result<(), String> {
    let ok = match (got, want) {
        (Ok(()), Expect::Ok) => true,
        // a declared size of gigabytes may make mmap itself fail: the failing system call is then reported
        (Err(NowOut::Err { kind: ErrKind::Syscall, detail, .. }), Expect::Ok) if huge_size && detail.starts_with("mmap") => true,
        (Err(NowOut::Err { kind: ErrKind::NotInitialized, errno: 0, detail }), Expect::NotInitialized) => detail.is_empty(),
        (Err(NowOut::Err { kind: ErrKind::Malformed, errno: 0, detail }), Expect::Malformed) => detail.is_empty(),
        (Err(NowOut::Err { kind: ErrKind::Syscall, errno, detail }), Expect::Syscall(e, d)) => errno == e && detail.starts_with(d),
        _ => false,
    };
    if ok {
        Ok(())
    } else {
        Err(format!("{}: expected {:?}, got {:?}", name, want, got))
    }
}

fn cdriver<'a>(env: &'a mut Env, variant: &'static str) -> Option<&'a mut CDriver> {
    let key: &'static str = if variant == "shared" { "cdrv-shared" } else { "cdrv-static" };
    if !env.any.contains_key(key) {
        if let Ok(d) = CDriver::spawn(variant) {
            env.any.insert(key, Box::new(d));
        }
    }
    let alive = env.any.get_mut(key).and_then(|b| b.downcast_mut::<CDriver>()).map(|d| d.alive()).unwrap_or(false);
    if !alive {
        env.any.remove(key);
        if let Ok(d) = CDriver::spawn(variant) {
            env.any.insert(key, Box::new(d));
        }
    }
    env.any.get_mut(key).and_then(|b| b.downcast_mut::<CDriver>())
}

pub struct C16;

fn check_c16_case(case: &FileCase, env: &mut Env) -> Verdict {
    let mut v = Verdict::default();
    let (path, dir) = materialise(case, env);
    let pstr = path.to_str().unwrap().to_string();
    let cpath = CString::new(pstr.clone()).unwrap();
    let want = expected_open(case);
    let file_like = matches!(case.kind, PathKind::File | PathKind::SymlinkToFile);
    let ref_verdict = reference_open_verdict(&case.content);
    if file_like {
        let n = case.content.len();
        if n >= 16 {
            let h = Hdr::decode(&case.content[..16]);
            if h.magic0 == MAGIC0 && h.magic1 == MAGIC1 && ref_verdict != OpenVerdict::Ok {
                v.label("magic-ok-but-rejected-later");
                v.nontrivial = true;
            }
            if ref_verdict == OpenVerdict::Ok && (h.size != 72 || n != 72) {
                v.label("usable-with-unusual-size");
                v.nontrivial = true;
            }
        }
        if n > 16 && n < 72 {
            v.label("truncated-inside-record");
            v.nontrivial = true;
        }
        if n < 16 {
            v.label("shorter-than-header");
        }
        match ref_verdict {
            OpenVerdict::Ok => v.label("expect-open-ok"),
            OpenVerdict::NotInitialized => v.label("expect-not-initialized"),
            OpenVerdict::Malformed => v.label("expect-malformed"),
        }
    } else {
        v.label("special-path");
        v.nontrivial = true;
    }
    // now() is only exercised when the status word of the (zero-padded) content is a valid encoding:
    // a garbage status in a file with a valid header is outside every listed property and would be
    // undefined behaviour inside this harness process
    // ... and whose record lies in the physically meaningful range C14 is stated for (timestamps
    // within +-68 years, bound in [0, 2^60)): outside it the client's arithmetic may overflow, which
    // no listed property forbids
    let status_ok = {
        let mut b = case.content.clone();
        b.resize(72, 0);
        let r = Rec::decode(&b[16..72]);
        let m31 = 1i64 << 31;
        (0..=2).contains(&r.status)
            && (-m31..=m31).contains(&r.as_of_s)
            && (-m31..=m31).contains(&r.void_s)
            && (0..1_000_000_000).contains(&r.as_of_ns)
            && (0..1_000_000_000).contains(&r.void_ns)
            && (0..(1i64 << 60)).contains(&r.bound)
    };
    let huge = file_like && case.content.len() >= 16 && Hdr::decode(&case.content[..16]).size > (1 << 30);

    // ---- part 0: the C library first, in its own process: if opening, reading or closing this
    // file damages the process (a mapping released that is not the reader's, a wild access), that
    // process dies, is reported, and the in-process entry points are not exposed to the same file
    let mut r3: Option<Result<(), NowOut>> = None;
    // (always when a valid header declares more than the 72 bytes the layout has: that is where a
    // reader can get its mapping arithmetic wrong)
    let declares_more = file_like && case.content.len() >= 16 && reference_open_verdict(&case.content) == OpenVerdict::Ok && Hdr::decode(&case.content[..16]).size > 72;
    if case.use_c || declares_more {
        if let Some(d) = cdriver(env, "static") {
            v.label("via-c-library");
            v.sub_evals += 1;
            let r = d.open(&pstr);
            let mut died: Option<&str> = None;
            if d.hung {
                died = Some("clockbound_open did not return within 10 s (the C driver process had to be killed)");
            } else if !d.alive() {
                died = Some("clockbound_open crashed the C driver process");
            } else if r.is_ok() {
                d.set_time(1_700_000_000_000_000_000, 5_000_000_000);
                if status_ok {
                    let _ = d.now();
                }
                if d.hung {
                    died = Some("clockbound_now did not return within 10 s after a successful open (the C driver process had to be killed)");
                } else if !d.alive() {
                    died = Some("clockbound_now crashed the C driver process after a successful open");
                } else {
                    d.close();
                    // the process must still be in working order after the close
                    let _ = d.abi();
                    if !d.alive() {
                        died = Some("the C driver process died in or right after clockbound_close: closing the client damaged the process");
                    }
                }
            }
            if let Some(m) = died {
                v.fail(m.into());
                let _ = std::fs::remove_dir_all(&dir);
                return v;
            }
            r3 = Some(r);
        }
    }

    // ---- part 1: open through the three entry points
    let r1: Result<(), NowOut> = match ShmReader::new(&cpath) {
        Ok(mut rd) => {
            // a reader that opened must also be able to take a snapshot without crashing
            let _ = rd.snapshot();
            Ok(())
        }
        Err(e) => Err(shm_err_to_out(e)),
    };
    if let Err(m) = judge_open("ShmReader::new", &r1, &want, huge) {
        v.fail(m);
    }
    let r2: Result<(), NowOut> = match ClockBoundClient::new_with_path(&pstr) {
        Ok(mut c) => {
            let vc = VClock::new(5_000_000_000, 1_700_000_000_000_000_000);
            let _g = vc.install();
            if status_ok {
                let _ = c.now();
            }
            Ok(())
        }
        Err(e) => Err(client_err_to_out(e)),
    };
    v.sub_evals += 1;
    if let Err(m) = judge_open("ClockBoundClient::new_with_path", &r2, &want, huge) {
        v.fail(m);
    }
    if r1 != r2 && !huge {
        v.fail(format!("ShmReader::new gave {:?} but ClockBoundClient::new_with_path gave {:?}", r1, r2));
    }
    if let Some(r3) = &r3 {
        if let Err(m) = judge_open("clockbound_open", r3, &want, huge) {
            v.fail(m);
        }
        if *r3 != r1 && !huge {
            v.fail(format!("clockbound_open gave {:?} but ShmReader::new gave {:?}", r3, r1));
        }
    }

    // ---- part 2: the daemon starts over this path and publishes once
    if file_like || matches!(case.kind, PathKind::Missing | PathKind::MissingParent) {
        let real_target = std::fs::canonicalize(&path).unwrap_or(path.clone());
        let ino_before = std::fs::metadata(&real_target).map(|m| m.ino()).ok();
        match crate::shmutil::new_writer(&path) {
            Err(e) => v.fail(format!("ShmWriter::new over a {:?} path failed: {}", case.kind, e)),
            Ok(mut w) => {
                w.write(&case.rec.to_ceb());
                v.sub_evals += 1;
                match ShmReader::new(&cpath) {
                    Err(e) => v.fail(format!("after daemon start-up and one publication a new client cannot open the segment: {:?} (previous content: {} bytes, reference verdict {:?})", e, case.content.len(), ref_verdict)),
                    Ok(mut rd) => match rd.snapshot() {
                        Ok(c) => {
                            let got = Rec::from_ceb(c);
                            if got != case.rec {
                                v.fail(format!("a new client read back {:?} but {:?} was published", got, case.rec));
                            }
                        }
                        Err(e) => v.fail(format!("snapshot() after the first publication failed: {:?}", e)),
                    },
                }
                let bytes = std::fs::read(&path).unwrap_or_default();
                let usable_before = file_like && ref_verdict == OpenVerdict::Ok;
                if !usable_before {
                    v.label("daemon-recreated-the-file");
                    let want_bytes = segment_bytes(&Hdr::valid(2), &case.rec);
                    if bytes.len() != SEG_LEN {
                        v.fail(format!("the re-created file is {} bytes long (documented: 72); previous content had {} bytes", bytes.len(), case.content.len()));
                    } else if bytes[..68] != want_bytes[..68] {
                        // bytes 68..72 are padding: PROTOCOL.md assigns them no value
                        v.fail(format!("the re-created file is not laid out as documented: {:?} vs {:?}", bytes, want_bytes));
                    }
                } else {
                    v.label("daemon-took-over-in-place");
                    let ino_after = std::fs::metadata(&real_target).map(|m| m.ino()).ok();
                    if ino_before != ino_after {
                        v.fail(format!("a usable segment was re-created (inode {:?} -> {:?})", ino_before, ino_after));
                    }
                }
                drop(w);
            }
        }
    }
    let _ = std::fs::remove_dir_all(&dir);
    v
}

impl Property for C16 {
    type Case = FileCase;
    const ID: &'static str = "C16";
    fn rule() -> String {
        "cases = pre-existing path: regular file | symlink to file | missing | missing parent | parent is a file | directory | symlink to directory | dangling symlink | /dev/null | symlink to /dev/null, with content = structured mutation of a valid 72-byte segment (magic with single-bit flips / swapped / random; declared size from {0,15,16,17,71,72,73,400,4096,2^31,2^32-1,random}; version and generation from {0,1,2,3,65534,65535,random}; body valid record / random / zero), truncated or zero-extended to every length 0..=80, extended with garbage, or pure random bytes. Part 1: open through ShmReader::new, ClockBoundClient::new_with_path and clockbound_open; oracle = reference validator written from the statement (exact kind, errno, detail) + exact agreement of the three. Part 2: ShmWriter::new + one write over the path; a fresh reader must read back exactly the record; a file the reference calls unusable must end up as exactly the documented 72 bytes (version 1, generation 2); a usable one keeps its inode. Non-trivial: content passes the magic check but is rejected later, truncation inside the record, usable file with size != 72, or a special path.".into()
    }
    fn assumptions() -> Vec<String> {
        vec!["FIFOs are excluded (open(2) blocks by OS semantics); a declared size above 1 GiB may legitimately fail in mmap".into()]
    }
    fn cases(tier: Tier) -> u64 {
        match tier {
            Tier::Quick => 1_000_000,
            Tier::Thorough => 10_000_000,
        }
    }
    fn strategy(_tier: Tier) -> BoxedStrategy<FileCase> {
        c16_strategy()
    }
    fn check(case: &FileCase, env: &mut Env) -> Verdict {
        check_c16_case(case, env)
    }
    fn crash_is_violation() -> bool {
        // every file is either opened or refused: a reader that damages the process on some file does neither
        true
    }
    fn hang_is_violation() -> bool {
        // an open that never returns is neither success nor one of the documented errors
        true
    }
    fn case_timeout_s() -> u64 {
        60
    }
    fn from_fuzz_bytes(d: &[u8]) -> Option<FileCase> {
        Some(crate::fuzzdec::decode_file_case(d))
    }
    fn floors() -> Vec<(&'static str, f64)> {
        vec![
            ("magic-ok-but-rejected-later", 0.1),
            ("truncated-inside-record", 0.1),
            ("usable-with-unusual-size", 0.03),
            ("special-path", 0.1),
            ("expect-open-ok", 0.1),
            ("expect-malformed", 0.03),
            ("daemon-took-over-in-place", 0.05),
            ("daemon-recreated-the-file", 0.3),
            ("via-c-library", 0.1),
        ]
    }
    fn extra(_tier: Tier, env: &mut Env, _seed: u64) -> Extra {
        // every truncation length 0..=80 of a valid segment and of a segment with declared size 400
        let mut ex = Extra::default();
        let rec = Rec {
            as_of_s: 11,
            as_of_ns: 22,
            void_s: 33,
            void_ns: 44,
            bound: 55,
            drift: 66,
            reserved: 77,
            status: 1,
        };
        for declared in [72u32, 400, 71] {
            for n in 0..=80usize {
                let mut content = segment_bytes(&Hdr { size: declared, ..Hdr::valid(6) }, &rec);
                content.resize(n, 0);
                for kind in [PathKind::File, PathKind::SymlinkToFile] {
                    if ex.failure.is_some() {
                        // one failure is enough to report; the rest of the enumeration would only
                        // repeat it (at 10 s apiece if it is a call that never returns)
                        continue;
                    }
                    let case = FileCase {
                        kind,
                        content: content.clone(),
                        rec,
                        use_c: true,
                    };
                    watch_case(&case);
                    let vd = check_c16_case(&case, env);
                    ex.evaluations += 1 + vd.sub_evals;
                    if vd.nontrivial {
                        ex.nontrivial_hashes.push(hash_str(&serde_json::to_string(&case).unwrap()));
                    }
                    if n == 20 && declared == 72 && ex.samples.is_empty() {
                        ex.samples.push(serde_json::json!({"enumerated_truncation": case, "labels": vd.labels}));
                    }
                    if let Some(m) = vd.fail {
                        if ex.failure.is_none() {
                            ex.failure = Some((m, serde_json::to_value(&case).unwrap()));
                        }
                    }
                }
            }
        }
        ex.label("enumerated-truncation-lengths-0-80");
        ex.exhaustive_note = Some("truncation/extension of a valid segment at every length 0..=80 x declared size {72, 400, 71} x {file, symlink}".into());
        ex
    }
}

// ------------------------------------------------------------------------------------------------
// C17

#[derive(Clone, Debug, Serialize, Deserialize, PartialEq)]
pub struct AbiCase {
    pub rec: Rec,
    pub real_ns: i64,
    pub mono_ns: i64,
    /// publish through the daemon's updater (fields it can set) or through the raw writer
    pub via_updater: bool,
    /// error condition injected at open instead: 0 none, 1 missing file, 2 bad magic, 3 small declared size, 4 generation 0
    pub open_error: u8,
    pub shared_lib: bool,
    /// what lies at the segment path before the daemon starts: 0 nothing, 1 200 bytes of garbage,
    /// 2 9 bytes of garbage, 3 a 128-byte stale segment with version 0
    #[serde(default)]
    pub preexisting: u8,
    /// what happens between the two opens and the two now() calls: 0 nothing; 1 the generation
    /// turns odd (daemon killed inside an update); 2 version and generation 0 (a restarting daemon
    /// has wiped the file); 3 one more complete update with another record; 4 both clients first
    /// make a call that fails (monotonic reading a second before as-of); 5 one more complete
    /// update (a record whose as-of is 10 s later) lands while the client is inside now(), at its
    /// first clock read
    #[serde(default)]
    pub after_open: u8,
}

pub struct C17;

fn c17_strategy() -> BoxedStrategy<AbiCase> {
    (
        rec_strategy(),
        crate::props::client::bound_strategy(),
        prop_oneof![6 => crate::props::client::drift_ok_strategy(), 1 => 1_000_000_000u32..=u32::MAX],
        (0i64..(1i64 << 31), 0i64..1_000_000_000),
        prop_oneof![
            5 => 0i64..20_000_000_000,
            2 => 0i64..2_000_000_000_000,
            1 => -2_000i64..2_000,
            1 => -5_000_000_000i64..0,
        ],
        -((1i64 << 31) * 1_000_000_000)..((1i64 << 31) * 1_000_000_000),
        any::<bool>(),
        prop_oneof![8 => Just(0u8), 1 => 1u8..5],
        (any::<bool>(), prop_oneof![5 => Just(0u8), 1 => Just(1u8), 1 => Just(2u8), 1 => Just(3u8)], prop_oneof![4 => Just(0u8), 5 => 1u8..6]),
    )
        .prop_map(|(mut rec, bound, drift, (as_s, as_n), age, real, via_updater, open_error, (shared_lib, preexisting, after_open))| {
            // physically meaningful timestamps for the now() comparison; all fields stay distinct
            rec.as_of_s = as_s;
            rec.as_of_ns = as_n;
            rec.void_s = as_s + 1000;
            rec.void_ns = if via_updater { 0 } else { rec.void_ns };
            rec.bound = if via_updater { bound } else { rec.bound % (1i64 << 60) };
            rec.drift = drift;
            if via_updater {
                rec.reserved = 0;
            }
            let mono = rec.as_of_ns_total() + age as i128;
            AbiCase {
                rec,
                real_ns: real,
                mono_ns: mono as i64,
                via_updater,
                open_error,
                shared_lib,
                preexisting,
                after_open,
            }
        })
        .boxed()
}

const ABI_EXPECTED: &str = "S sizeof_err=16 off_kind=0 off_errno=4 off_detail=8 sizeof_res=40 off_earliest=0 off_latest=16 off_status=32 ERR_NONE=0 ERR_SYSCALL=1 ERR_NOT_INIT=2 ERR_MALFORMED=3 ERR_CAUSALITY=4 STA_UNKNOWN=0 STA_SYNC=1 STA_FREE=2 path=/var/run/clockbound/shm";

fn check_c17_case(case: &AbiCase, env: &mut Env) -> Verdict {
    let mut v = Verdict::default();
    let dir = env.fresh_path("c17");
    let _ = std::fs::remove_dir_all(&dir);
    std::fs::create_dir_all(&dir).unwrap();
    let path = dir.join("shm");
    let pstr = path.to_str().unwrap().to_string();
    let r = &case.rec;
    let fields = [r.as_of_s as i128, r.as_of_ns as i128, r.void_s as i128, r.void_ns as i128, r.bound as i128, r.drift as i128, r.reserved as i128];
    let all_nonzero_distinct = fields.iter().all(|x| *x != 0) && (0..fields.len()).all(|i| (i + 1..fields.len()).all(|j| fields[i] != fields[j]));
    if all_nonzero_distinct {
        v.label("all-fields-nonzero-distinct");
        v.nontrivial = true;
    }
    let variant: &'static str = if case.shared_lib { "shared" } else { "static" };
    if case.shared_lib {
        v.label("libclockbound-so");
    } else {
        v.label("libclockbound-a");
    }

    if case.open_error != 0 {
        v.label("open-error-case");
        v.nontrivial = true;
        match case.open_error {
            1 => {}
            2 => std::fs::write(&path, segment_bytes(&Hdr { magic1: MAGIC1 ^ 1, ..Hdr::valid(4) }, r)).unwrap(),
            3 => std::fs::write(&path, segment_bytes(&Hdr { size: 40, ..Hdr::valid(4) }, r)).unwrap(),
            _ => std::fs::write(&path, segment_bytes(&Hdr::valid(0), r)).unwrap(),
        }
        let rust: Result<(), NowOut> = ClockBoundClient::new_with_path(&pstr).map(|_| ()).map_err(client_err_to_out);
        if let Some(d) = cdriver(env, variant) {
            let c = d.open(&pstr);
            if c != rust {
                v.fail(format!("open error: the C library reports {:?}, the Rust client {:?}", c, rust));
            }
            if c.is_ok() {
                d.close();
            }
            // the same open with err == NULL ("If err is non-null, fills *err"): same outcome, no report
            match d.open_without_err(&pstr) {
                Some(opened) => {
                    if opened != rust.is_ok() {
                        v.fail(format!("open error: clockbound_open(path, NULL) {} a context, the Rust client reports {:?}", if opened { "returned" } else { "did not return" }, rust));
                    }
                    if opened {
                        d.close();
                    }
                }
                None => v.fail(format!("open error: clockbound_open(path, NULL) killed the C program (clockbound.h allows err == NULL); the Rust client reports {:?}", rust)),
            }
        }
        let _ = std::fs::remove_dir_all(&dir);
        return v;
    }

    // ---- layout: publish with the real writer (raw or through the daemon's updater), possibly
    // over something unusable that was lying at the path
    match case.preexisting {
        1 => {
            v.label("cold-start-over-longer-garbage");
            v.nontrivial = true;
            std::fs::write(&path, vec![0xA5u8; 200]).unwrap()
        }
        2 => std::fs::write(&path, b"foobarbaz").unwrap(),
        3 => {
            v.label("cold-start-over-longer-garbage");
            v.nontrivial = true;
            let mut b = segment_bytes(&Hdr { version: 0, size: 128, ..Hdr::valid(0) }, r);
            b.resize(128, 0x77);
            std::fs::write(&path, b).unwrap()
        }
        _ => {}
    }
    let published: Rec;
    {
        let mut w = match crate::shmutil::new_writer(&path) {
            Ok(w) => w,
            Err(e) => {
                v.fail(format!("ShmWriter::new failed: {}", e));
                return v;
            }
        };
        if case.via_updater {
            v.label("published-through-updater");
            // a synchronised report whose exact bound is known: offset = 0, delay = 0, dispersion 0 => 0
            // plus the PHC error bound carrying the wanted value
            let vc = VClock::new(r.as_of_ns_total(), 1_700_000_000_000_000_000);
            let _g = vc.install();
            let report = crate::daemon::WireReport {
                ref_id: 1,
                leap: 0,
                ref_time_ns: 1_700_000_000_000_000_000,
                offset: crate::daemon::WireFloat::ZERO,
                delay: crate::daemon::WireFloat::ZERO,
                disp: crate::daemon::WireFloat::ZERO,
                interval: crate::daemon::WireFloat::pow2(4),
            };
            let mut up = clock_bound_d::verif::Updater::new(w, r.drift);
            up.process_clock_update(crate::daemon::tracking_of(&report), r.bound, crate::daemon::ts(r.as_of_ns_total()));
            published = Rec {
                void_s: r.as_of_s + 1000,
                void_ns: 0,
                reserved: 0,
                status: 1,
                ..*r
            };
            drop(up);
        } else {
            v.label("published-raw");
            w.write(&r.to_ceb());
            published = *r;
            drop(w);
        }
    }
    let bytes = std::fs::read(&path).unwrap_or_default();
    if bytes.len() != SEG_LEN {
        v.fail(format!("the daemon-written file is {} bytes long; PROTOCOL.md describes 72", bytes.len()));
        return v;
    }
    let h = Hdr::decode(&bytes[..HEADER_LEN]);
    if h.magic0 != MAGIC0 || h.magic1 != MAGIC1 || h.size != 72 || h.version != 1 || h.generation != 2 {
        v.fail(format!("header decoded with PROTOCOL.md offsets: {:?}; expected magic, size 72, version 1, generation 2", h));
    }
    let decoded = Rec::decode(&bytes[HEADER_LEN..SEG_LEN]);
    if decoded != published {
        v.fail(format!("record decoded with PROTOCOL.md offsets {:?} differs from the published one {:?}", decoded, published));
    }
    if bytes[68..72] != [0, 0, 0, 0] {
        v.label("padding-nonzero");
    }
    if !(0..=2).contains(&decoded.status) {
        v.fail(format!("status encoded as {}", decoded.status));
    }

    // ---- ABI: same segment, same virtual instant, both clients. Both attach first; the segment may
    // then change (as it does under a long-lived client); then both are asked.
    let real = case.real_ns as i128;
    let mono = case.mono_ns as i128;
    let now_out = |r: Result<clock_bound_client::ClockBoundNowResult, clock_bound_client::ClockBoundError>| match r {
        Ok(o) => NowOut::Ok {
            earliest_ns: crate::clock::timespec_to_ns(o.earliest.as_ref()),
            latest_ns: crate::clock::timespec_to_ns(o.latest.as_ref()),
            status: status_to_i32(o.clock_status),
        },
        Err(e) => client_err_to_out(e),
    };
    let mut rust_client = ClockBoundClient::new_with_path(&pstr);
    let c_open = cdriver(env, variant).map(|d| d.open(&pstr));
    {
        use std::os::unix::fs::FileExt;
        let f = std::fs::OpenOptions::new().write(true).open(&path).unwrap();
        match case.after_open {
            1 => {
                v.label("generation-odd-after-open");
                v.nontrivial = true;
                let _ = f.write_all_at(&3u16.to_le_bytes(), OFF_GENERATION as u64);
            }
            2 => {
                v.label("wiped-after-open");
                v.nontrivial = true;
                let _ = f.write_all_at(&[0u8; 4], OFF_VERSION as u64);
            }
            3 => {
                v.label("updated-after-open");
                let newer = Rec { bound: published.bound / 2 + 17, ..published };
                let _ = f.write_all_at(&3u16.to_le_bytes(), OFF_GENERATION as u64);
                let _ = f.write_all_at(&newer.encode(), HEADER_LEN as u64);
                let _ = f.write_all_at(&4u16.to_le_bytes(), OFF_GENERATION as u64);
            }
            _ => {}
        }
    }
    if case.after_open == 4 {
        v.label("failing-call-first");
        v.nontrivial = true;
        let early = published.as_of_ns_total() - 1_000_000_000;
        let r0 = {
            let vc = VClock::new(early, real);
            let _g = vc.install();
            match rust_client.as_mut() {
                Ok(c) => now_out(c.now()),
                Err(_) => NowOut::Ok { earliest_ns: 0, latest_ns: 0, status: -1 },
            }
        };
        if let (Some(d), Some(Ok(()))) = (cdriver(env, variant), &c_open) {
            d.set_time(real, early);
            let c0 = d.now();
            if c0 != r0 && rust_client.is_ok() {
                v.fail(format!("same segment, same instant (a second before as-of): the C library returned {:?}, the Rust client {:?}", c0, r0));
            }
        }
    }
    // after_open == 5: the update that lands during the call
    let during: Vec<(usize, Vec<u8>)> = if case.after_open == 5 {
        v.label("updated-during-the-call");
        v.nontrivial = true;
        let newer = Rec { as_of_s: published.as_of_s + 10, void_s: published.void_s + 10, bound: published.bound / 2 + 23, ..published };
        vec![(OFF_GENERATION, 3u16.to_le_bytes().to_vec()), (HEADER_LEN, newer.encode().to_vec()), (OFF_GENERATION, 4u16.to_le_bytes().to_vec())]
    } else {
        vec![]
    };
    let original = if during.is_empty() { vec![] } else { std::fs::read(&path).unwrap_or_default() };
    let rust: NowOut = {
        let vc = VClock::new(mono, real);
        let _g = vc.install();
        if !during.is_empty() {
            let writes = during.clone();
            let p2 = path.clone();
            let mut done = false;
            crate::clock::set_on_read(Some(Box::new(move |_clk, _s| {
                if !done {
                    done = true;
                    use std::os::unix::fs::FileExt;
                    if let Ok(f) = std::fs::OpenOptions::new().write(true).open(&p2) {
                        for (off, b) in &writes {
                            let _ = f.write_all_at(b, *off as u64);
                        }
                    }
                }
            })));
        }
        let r = match rust_client {
            Ok(mut c) => now_out(c.now()),
            Err(e) => client_err_to_out(e),
        };
        crate::clock::set_on_read(None);
        r
    };
    if !during.is_empty() {
        // the C library meets the same situation: the segment as it was, the update queued
        use std::os::unix::fs::FileExt;
        if let Ok(f) = std::fs::OpenOptions::new().write(true).open(&path) {
            let _ = f.write_all_at(&original, 0);
        }
        if let Some(d) = cdriver(env, variant) {
            for (off, b) in &during {
                d.queue_update(&pstr, *off, b);
            }
        }
    }
    if matches!(rust, NowOut::Err { .. }) {
        v.label("now-error-case");
        v.nontrivial = true;
    }
    match &rust {
        NowOut::Ok { status: 0, .. } => v.label("status-unknown"),
        NowOut::Ok { status: 1, .. } => v.label("status-synchronized"),
        NowOut::Ok { status: 2, .. } => v.label("status-freerunning"),
        _ => {}
    }
    if let Some(d) = cdriver(env, variant) {
        v.sub_evals += 1;
        match c_open {
            Some(Ok(())) => {
                d.set_time(real, mono);
                let c = d.now();
                if c != rust {
                    v.fail(format!(
                        "same segment, same instant{}: the C library returned {:?}, the Rust client {:?}",
                        match case.after_open {
                            1 => " (both attached before the generation turned odd)",
                            2 => " (both attached before the file was wiped)",
                            3 => " (both attached before one more update)",
                            4 => " (after a failing call on both)",
                            5 => " (one more update landing at the first clock read of the call)",
                            _ => "",
                        },
                        c,
                        rust
                    ));
                }
                if matches!(c, NowOut::Ok { .. }) && d.last_ids != "Rc" {
                    v.fail(format!("clockbound_now read the clocks in the order {:?} (expected realtime then monotonic-coarse)", d.last_ids));
                }
                d.close();
            }
            Some(Err(e)) => v.fail(format!("clockbound_open failed on a daemon-written segment: {:?}", e)),
            None => {}
        }
        if !d.alive() {
            v.fail("the C driver died".into());
        }
    } else {
        v.fail("C driver not available (build.sh cdriver)".into());
    }
    let _ = std::fs::remove_dir_all(&dir);
    v
}

impl Property for C17 {
    type Case = AbiCase;
    const ID: &'static str = "C17";
    fn rule() -> String {
        "cases = record with all fields drawn independently (negative and > 2^32 bounds, all of u32 for drift and reserved, sec+nsec of both timestamps, 3 statuses), published through the real ShmWriter (raw) or through the daemon's ShmUpdater, on a fresh path or over unusable leftovers (200 bytes of garbage, 9 bytes, a 128-byte stale segment); clock readings incl. causality breaches, ages beyond 5 s / beyond void_after, malformed drift; both clients attach first, then (half of the cases) the segment changes under them - generation turns odd, file wiped, one more update - or both first make a failing call, or one more update lands at the first clock read inside the call; open errors (missing file, bad magic, small declared size, generation 0; each also with err == NULL, which clockbound.h allows); static and shared libclockbound. Oracle: (layout) the file decoded with offsets transcribed from PROTOCOL.md equals the published field values, length 72, header magic/size/version 1/generation 2, status in 0..2; (ABI) a C program compiled against clockbound.h returns for the same segment and the same virtual (realtime, monotonic) exactly the Rust client's earliest/latest/status or error kind/errno/detail; sizeof/offsetof/enumerators reported by the C program equal the documented ones. Non-trivial: all fields non-zero and pairwise distinct, or an error case.".into()
    }
    fn assumptions() -> Vec<String> {
        vec!["the magic number is read as the two 32-bit words 0x414D5A4E 0x43420200 in native byte order (PROTOCOL.md lists the eight bytes in that reading)".into()]
    }
    fn cases(tier: Tier) -> u64 {
        match tier {
            Tier::Quick => 400_000,
            Tier::Thorough => 3_000_000,
        }
    }
    fn strategy(_tier: Tier) -> BoxedStrategy<AbiCase> {
        c17_strategy()
    }
    fn check(case: &AbiCase, env: &mut Env) -> Verdict {
        check_c17_case(case, env)
    }
    fn floors() -> Vec<(&'static str, f64)> {
        vec![
            ("all-fields-nonzero-distinct", 0.2),
            ("cold-start-over-longer-garbage", 0.1),
            ("open-error-case", 0.05),
            ("now-error-case", 0.1),
            ("libclockbound-so", 0.3),
            ("published-through-updater", 0.3),
            ("status-freerunning", 0.05),
            ("status-unknown", 0.1),
        ]
    }
    fn extra(_tier: Tier, env: &mut Env, _seed: u64) -> Extra {
        let mut ex = Extra::default();
        for variant in ["static", "shared"] {
            match cdriver(env, variant) {
                Some(d) => {
                    let got = d.abi();
                    ex.evaluations += 1;
                    if got != ABI_EXPECTED {
                        ex.failure = Some((format!("C ABI report of libclockbound ({}) differs from clockbound.h as documented:\n got  {}\n want {}", variant, got, ABI_EXPECTED), serde_json::json!({"abi_report": got})));
                    }
                    ex.samples.push(serde_json::json!({"abi_report": got, "variant": variant}));
                }
                None => {
                    ex.failure = Some((format!("C driver ({}) not available", variant), serde_json::Value::Null));
                }
            }
        }
        ex
    }
}

#[allow(dead_code)]
fn unused(_: &Path) {}
