//! C19 (configured drift rate is published exactly, or start-up is refused) on the real release
//! binary, and C15 (if any daemon thread dies, the whole daemon exits promptly) on
//! `thread_manager::run()` with injected worker failures. Every daemon instance runs in a private
//! mount namespace with an empty tmpfs on /run, so that the hard-coded /var/run paths are isolated
//! per case; the harness looks into it through /proc/<pid>/root.

use crate::layout::*;
use crate::runner::*;
use proptest::prelude::*;
use serde::{Deserialize, Serialize};
use std::os::unix::process::CommandExt;
use std::path::PathBuf;
use std::process::{Child, Command, Stdio};
use std::time::Duration;

pub const DAEMON_BIN: &str = "/verif/target/daemon/release/clockbound";

fn real_now() -> f64 {
    crate::clock::real_mono_s()
}

fn real_sleep(d: Duration) {
    // std::thread::sleep uses nanosleep (not clock_gettime): unaffected by the virtual clock
    std::thread::sleep(d);
}

/// Make the command run in a private mount namespace with an empty tmpfs on /run.
pub fn in_private_run(cmd: &mut Command) -> &mut Command {
    unsafe {
        cmd.pre_exec(|| {
            if libc::unshare(libc::CLONE_NEWNS) != 0 {
                return Err(std::io::Error::last_os_error());
            }
            let root = b"/\0";
            if libc::mount(std::ptr::null(), root.as_ptr().cast(), std::ptr::null(), libc::MS_REC | libc::MS_PRIVATE, std::ptr::null()) != 0 {
                return Err(std::io::Error::last_os_error());
            }
            let tmpfs = b"tmpfs\0";
            let run = b"/run\0";
            if libc::mount(tmpfs.as_ptr().cast(), run.as_ptr().cast(), tmpfs.as_ptr().cast(), 0, std::ptr::null()) != 0 {
                return Err(std::io::Error::last_os_error());
            }
            Ok(())
        })
    }
}

pub fn ns_path(pid: u32, inner: &str) -> PathBuf {
    PathBuf::from(format!("/proc/{}/root{}", pid, inner))
}

fn kill_and_wait(child: &mut Child) {
    let _ = child.kill();
    let _ = child.wait();
}

// ------------------------------------------------------------------------------------------------
// C19

#[derive(Clone, Debug, Serialize, Deserialize, PartialEq)]
pub enum RateArg {
    Absent,
    Num(u64),
    Text(String),
}

#[derive(Clone, Debug, Serialize, Deserialize, PartialEq)]
pub struct RateCase {
    pub arg: RateArg,
    /// Some(d): a valid segment left by an earlier run of the daemon (generation 8, a record with
    /// max_drift_ppb d) lies at the segment path when the daemon starts (a warm restart)
    #[serde(default)]
    pub leftover_drift: Option<u32>,
}

#[derive(Debug, Clone, PartialEq)]
pub enum RateObs {
    /// records published: drift values seen (first, and after a second publication)
    Published(Vec<u32>),
    Exited(i32),
    /// neither within the deadline
    Nothing,
}

/// Like `in_private_run`, and a file with `content` is created at /run/clockbound/shm before the
/// program starts (only raw system calls after the fork).
fn in_private_run_with_segment(cmd: &mut Command, content: Vec<u8>) -> &mut Command {
    unsafe {
        cmd.pre_exec(move || {
            if libc::unshare(libc::CLONE_NEWNS) != 0 {
                return Err(std::io::Error::last_os_error());
            }
            if libc::mount(std::ptr::null(), b"/\0".as_ptr().cast(), std::ptr::null(), libc::MS_REC | libc::MS_PRIVATE, std::ptr::null()) != 0 {
                return Err(std::io::Error::last_os_error());
            }
            if libc::mount(b"tmpfs\0".as_ptr().cast(), b"/run\0".as_ptr().cast(), b"tmpfs\0".as_ptr().cast(), 0, std::ptr::null()) != 0 {
                return Err(std::io::Error::last_os_error());
            }
            if libc::mkdir(b"/run/clockbound\0".as_ptr().cast(), 0o755) != 0 {
                return Err(std::io::Error::last_os_error());
            }
            let fd = libc::open(b"/run/clockbound/shm\0".as_ptr().cast(), libc::O_CREAT | libc::O_WRONLY | libc::O_TRUNC, 0o644 as libc::c_uint);
            if fd < 0 {
                return Err(std::io::Error::last_os_error());
            }
            let n = libc::write(fd, content.as_ptr().cast(), content.len());
            libc::close(fd);
            if n != content.len() as isize {
                return Err(std::io::Error::from_raw_os_error(libc::EIO));
            }
            Ok(())
        })
    }
}

const LEFTOVER_GEN: u16 = 8;

pub fn run_daemon_for_rate(arg: &RateArg, leftover_drift: Option<u32>) -> Result<RateObs, String> {
    if !std::path::Path::new(DAEMON_BIN).exists() {
        return Err(format!("{} not built (build.sh daemon)", DAEMON_BIN));
    }
    let mut cmd = Command::new(DAEMON_BIN);
    match arg {
        RateArg::Absent => {}
        RateArg::Num(n) => {
            cmd.arg("--max-drift-rate").arg(n.to_string());
        }
        RateArg::Text(t) => {
            cmd.arg("--max-drift-rate").arg(t);
        }
    }
    cmd.stdin(Stdio::null()).stdout(Stdio::null()).stderr(Stdio::null());
    match leftover_drift {
        Some(d) => {
            let rec = Rec {
                as_of_s: 5,
                as_of_ns: 0,
                void_s: 1005,
                void_ns: 0,
                bound: 12_345,
                drift: d,
                reserved: 0,
                status: 1,
            };
            in_private_run_with_segment(&mut cmd, segment_bytes(&Hdr::valid(LEFTOVER_GEN), &rec));
        }
        None => {
            in_private_run(&mut cmd);
        }
    }
    let mut child = cmd.spawn().map_err(|e| format!("cannot start the daemon in a private mount namespace: {}", e))?;
    let pid = child.id();
    let shm = ns_path(pid, "/run/clockbound/shm");
    let t0 = real_now();
    let mut seen: Vec<u32> = vec![];
    // only what this daemon publishes counts, not the record it found
    let mut last_gen = if leftover_drift.is_some() { LEFTOVER_GEN } else { 0u16 };
    // the second publication (1 s later) is awaited for one case in eight
    let want_two = hash_str(&format!("{:?}", arg)) % 8 == 0;
    let obs = loop {
        if let Ok(Some(st)) = child.try_wait() {
            break if seen.is_empty() { RateObs::Exited(st.code().unwrap_or(-1)) } else { RateObs::Published(seen.clone()) };
        }
        if let Ok(b) = std::fs::read(&shm) {
            if b.len() >= SEG_LEN {
                let h = Hdr::decode(&b[..HEADER_LEN]);
                if h.generation != 0 && h.generation & 1 == 0 && h.version != 0 && h.generation != last_gen {
                    last_gen = h.generation;
                    seen.push(Rec::decode(&b[HEADER_LEN..SEG_LEN]).drift);
                    if seen.len() >= 2 || !want_two {
                        break RateObs::Published(seen.clone());
                    }
                }
            }
        }
        let el = real_now() - t0;
        if !seen.is_empty() && el > 1.6 {
            break RateObs::Published(seen.clone());
        }
        if el > 10.0 {
            break if seen.is_empty() { RateObs::Nothing } else { RateObs::Published(seen.clone()) };
        }
        real_sleep(Duration::from_millis(if seen.is_empty() { 2 } else { 50 }));
    };
    kill_and_wait(&mut child);
    Ok(obs)
}

pub struct C19;

fn c19_strategy() -> BoxedStrategy<RateCase> {
    let wrap = 4_294_967_296u64; // 2^32
    prop_oneof![
        1 => Just(RateArg::Absent),
        2 => prop_oneof![Just(0u64), Just(1), Just(50), Just(1000)].prop_map(RateArg::Num),
        3 => prop_oneof![Just(4_294_967u64), Just(4_294_968), Just(4_294_966), Just(4_294_969)].prop_map(RateArg::Num),
        3 => (0u32..32, -1i64..=1).prop_map(|(k, d)| RateArg::Num(((1i64 << k) + d).max(0) as u64)),
        // products that wrap to small values: N ~ k * 2^32 / 1000
        3 => (1u64..1000, 0u64..3).prop_map(move |(k, d)| RateArg::Num((k * wrap / 1000 + d).min(u32::MAX as u64))),
        4 => (0u64..=u32::MAX as u64).prop_map(RateArg::Num),
        2 => (0u64..4_294_968).prop_map(RateArg::Num),
        1 => (u32::MAX as u64 + 1..u64::MAX).prop_map(RateArg::Num),
        1 => prop_oneof![Just("abc".to_string()), Just("-1".to_string()), Just("1.5".to_string()), Just("".to_string()), Just("1e3".to_string())].prop_map(RateArg::Text),
    ]
    .prop_flat_map(|arg| (Just(arg), prop_oneof![3 => Just(None), 1 => prop_oneof![Just(1000u32), Just(0u32), Just(50_000u32), any::<u32>()].prop_map(Some)]))
    .prop_map(|(arg, leftover_drift)| RateCase { arg, leftover_drift })
    .boxed()
}

fn check_c19_case(case: &RateCase, _env: &mut Env) -> Verdict {
    let mut v = Verdict::default();
    let expect: Option<u32> = match &case.arg {
        RateArg::Absent => Some(1000),
        RateArg::Num(n) => n.checked_mul(1000).and_then(|p| u32::try_from(p).ok()),
        RateArg::Text(_) => None,
    };
    if let RateArg::Num(n) = &case.arg {
        if *n > 4_294_967 {
            v.label("not-representable");
            v.nontrivial = true;
        } else {
            v.label("representable");
        }
        if (0..33).any(|k| (*n as i64 - (1i64 << k)).abs() <= 2) {
            v.label("near-power-of-two");
            v.nontrivial = true;
        }
        if *n > u32::MAX as u64 {
            v.label("beyond-u32");
        }
    }
    if case.leftover_drift.is_some() {
        v.label("warm-restart-over-a-segment-of-another-run");
        if case.leftover_drift != expect {
            v.nontrivial = true;
        }
    }
    let obs = match run_daemon_for_rate(&case.arg, case.leftover_drift) {
        Ok(o) => o,
        Err(m) => {
            v.fail(m);
            return v;
        }
    };
    match (&obs, expect) {
        (RateObs::Published(vals), Some(want)) => {
            v.label("published");
            if vals.iter().any(|x| *x != want) {
                v.fail(format!("--max-drift-rate {:?}: records carry max_drift_ppb {:?}, expected exactly {}", case.arg, vals, want));
            }
        }
        (RateObs::Published(vals), None) => {
            v.fail(format!(
                "--max-drift-rate {:?} cannot be represented in ppb (u32), yet the daemon runs and publishes max_drift_ppb {:?} (silently wrapped)",
                case.arg, vals
            ));
        }
        (RateObs::Exited(code), None) => {
            v.label("refused");
            if *code == 0 {
                v.fail(format!("--max-drift-rate {:?} was refused but the exit status is 0", case.arg));
            }
        }
        (RateObs::Exited(code), Some(want)) => {
            v.fail(format!("--max-drift-rate {:?} is representable ({} ppb) but the daemon exited with status {} before publishing", case.arg, want, code));
        }
        (RateObs::Nothing, _) => {
            // neither a publication nor an exit within 10 s: inconclusive for this case, not a violation
            v.label("inconclusive-no-publication-within-10s");
        }
    }
    v
}

impl Property for C19 {
    type Case = RateCase;
    const ID: &'static str = "C19";
    fn rule() -> String {
        "cases = --max-drift-rate N for N from: absent; 0, 1, 50, 1000; 4294966..4294969 (last representable / first wrapping product); 2^k and 2^k +- 1; k*2^32/1000 + {0,1,2} (products that wrap to small values); uniform u32; uniform below 4294968; values above u32::MAX; non-numeric strings. Each case starts the real release clockbound binary (cargo build --release of /repo) in a private mount namespace with an empty /run - or, one case in four, with a valid segment left by an earlier run whose record carries another drift rate - (no chronyd: the first poll publishes at once), reads max_drift_ppb of the first publication (of the first two for one case in eight) at offset 56 through /proc/<pid>/root, or the exit status. Oracle: N*1000 representable (or absent -> 1000) => runs and every record carries exactly N*1000; otherwise exits non-zero without publishing. Non-trivial: N > 4294967 or within 2 of a power of two.".into()
    }
    fn assumptions() -> Vec<String> {
        vec!["all 2^32 values are not run (a process start each); the arithmetic is piecewise uniform and the generator is built around its discontinuities".into()]
    }
    fn cases(tier: Tier) -> u64 {
        match tier {
            Tier::Quick => 1_500,
            Tier::Thorough => 150_000,
        }
    }
    fn strategy(_tier: Tier) -> BoxedStrategy<RateCase> {
        c19_strategy()
    }
    fn check(case: &RateCase, env: &mut Env) -> Verdict {
        check_c19_case(case, env)
    }
    fn floors() -> Vec<(&'static str, f64)> {
        vec![("not-representable", 0.2), ("representable", 0.2), ("published", 0.2), ("near-power-of-two", 0.1), ("warm-restart-over-a-segment-of-another-run", 0.1)]
    }
    fn max_shrink_iters(_t: Tier) -> u32 {
        60
    }
}

// ------------------------------------------------------------------------------------------------
// C15

#[derive(Clone, Debug, Serialize, Deserialize, PartialEq)]
pub enum ChronyMode {
    /// no chronyd socket: queries fail at once
    Absent,
    /// queries time out after 3 x 1 s
    Silent,
    /// queries are answered with a synchronised report (ref id PHC0)
    Answering,
}

#[derive(Clone, Debug, Serialize, Deserialize, PartialEq)]
pub enum Natural {
    None,
    /// /run/clockbound is a regular file: the writer thread cannot create the segment
    RunDirIsFile,
    /// the PHC error-bound file holds text that does not parse (documented expect() in the poller)
    PhcUnparsable,
    /// the PHC error-bound file is fine at first and becomes unparsable after ~1.5 s
    PhcTurnsUnparsable,
}

#[derive(Clone, Debug, Serialize, Deserialize, PartialEq)]
pub struct FaultCase {
    /// injected fault: (fault point, n-th time it is reached, panic?)
    pub fault: Option<(String, u32, bool)>,
    pub chrony: ChronyMode,
    pub natural: Natural,
    /// extra delay (ms) the answering chronyd takes
    pub reply_delay_ms: u32,
    /// the failing worker lingers at the fault point for this long before it dies
    #[serde(default)]
    pub fault_delay_ms: u32,
    /// another fault point at which the thread that reaches it first is held up for so many ms and
    /// then carries on (the other worker is slow - descheduled - while this one fails)
    #[serde(default)]
    pub stall: Option<(String, u32)>,
}

pub const POLLER_POINTS: [&str; 7] = ["poller:startup", "poller:loop_top", "poller:after_clock_read", "poller:before_send", "poller:after_send", "poller:before_recv", "poller:after_recv"];
pub const WRITER_POINTS_LOOP: [&str; 4] = ["writer:startup", "writer:after_new", "writer:loop_top", "writer:after_message"];
pub const WRITER_POINTS_NESTED: [&str; 4] = ["writer:in_clock_update", "writer:in_missing_update", "writer:before_write", "writer:after_write"];

/// Deadline (s) between the worker's failure and the daemon's exit.
pub const DEADLINE_S: f64 = 12.0;

/// Entry point of the child process (already inside the private namespace).
pub fn c15_child(spec_json: &str) -> i32 {
    use clock_bound_d::verif as dv;
    let case: FaultCase = match serde_json::from_str(spec_json) {
        Ok(c) => c,
        Err(e) => {
            println!("{{\"error\":\"bad spec: {}\"}}", e);
            return 2;
        }
    };
    std::panic::set_hook(Box::new(|_| {}));
    let phc_path = PathBuf::from("/run/phc_error_bound");
    let mut phc_info = None;
    match case.natural {
        Natural::None => {}
        Natural::RunDirIsFile => {
            std::fs::write("/run/clockbound", b"not a directory").unwrap();
            NATURAL_IMMEDIATE.store(true, std::sync::atomic::Ordering::SeqCst);
        }
        Natural::PhcUnparsable => {
            std::fs::write(&phc_path, b"not-a-number\n").unwrap();
            NATURAL_IMMEDIATE.store(true, std::sync::atomic::Ordering::SeqCst);
            phc_info = Some(clock_bound_d::PhcInfo {
                refid: 0x50484330,
                sysfs_error_bound_path: phc_path.clone(),
            });
        }
        Natural::PhcTurnsUnparsable => {
            std::fs::write(&phc_path, b"1234\n").unwrap();
            phc_info = Some(clock_bound_d::PhcInfo {
                refid: 0x50484330,
                sysfs_error_bound_path: phc_path.clone(),
            });
            let p = phc_path.clone();
            std::thread::spawn(move || {
                std::thread::sleep(Duration::from_millis(1500));
                let _ = std::fs::write(&p, b"garbage\n");
                NATURAL_AT.store((real_now() * 1000.0) as u64, std::sync::atomic::Ordering::SeqCst);
            });
        }
    }
    match case.chrony {
        ChronyMode::Absent => {}
        ChronyMode::Silent => dv::set_global_responder(Some(Box::new(|_r, _o| {
            std::thread::sleep(Duration::from_millis(3000));
            Err(std::io::Error::new(std::io::ErrorKind::TimedOut, "scripted silence"))
        }))),
        ChronyMode::Answering => {
            let delay = case.reply_delay_ms;
            dv::set_global_responder(Some(Box::new(move |_r, _o| {
                if delay > 0 {
                    std::thread::sleep(Duration::from_millis(delay as u64));
                }
                let now = std::time::SystemTime::now().duration_since(std::time::UNIX_EPOCH).unwrap();
                let r = crate::daemon::WireReport {
                    ref_id: 0x50484330,
                    leap: 0,
                    ref_time_ns: now.as_nanos() as i64,
                    offset: crate::daemon::WireFloat { exp: -9, coef: -4_000_000 },
                    delay: crate::daemon::WireFloat { exp: -8, coef: 5_000_000 },
                    disp: crate::daemon::WireFloat { exp: -10, coef: 6_000_000 },
                    interval: crate::daemon::WireFloat::pow2(4),
                };
                Ok(crate::daemon::wire_reply(&r, 1))
            })));
        }
    }
    if let Some((name, ms)) = &case.stall {
        dv::arm_stall(name, Duration::from_millis(*ms as u64));
    }
    if let Some((name, nth, panic)) = &case.fault {
        dv::arm_fault_delayed(name, *nth, if *panic { dv::FaultKind::Panic } else { dv::FaultKind::Return }, Duration::from_millis(case.fault_delay_ms as u64));
    }
    let t_start = real_now();
    // watchdog: report "fault never reached" instead of running for ever when nothing fails
    let has_natural = case.natural != Natural::None;
    let has_fault = case.fault.is_some();
    std::thread::spawn(move || {
        // a worker thread that disappears for whatever reason (not only through the armed fault)
        // starts the deadline as well
        let mut max_tasks = 0usize;
        loop {
        std::thread::sleep(Duration::from_millis(50));
        let tasks = std::fs::read_dir("/proc/self/task").map(|d| d.count()).unwrap_or(0);
        max_tasks = max_tasks.max(tasks);
        if tasks < max_tasks && real_now() - t_start > 0.5 && !std::path::Path::new("/run/verif-fired").exists() {
            let _ = std::fs::write("/run/verif-fired", b"1");
        }
        let fired = dv::fault_fired_at().is_some();
        // tell the parent (which looks into this namespace through /proc/<pid>/root) that the
        // failure has happened: its 30 s deadline starts now
        if (fired || NATURAL_AT.load(std::sync::atomic::Ordering::SeqCst) > 0 || (has_natural && !has_fault && real_now() - t_start > 0.0 && NATURAL_IMMEDIATE.load(std::sync::atomic::Ordering::SeqCst))) && !std::path::Path::new("/run/verif-fired").exists() {
            let _ = std::fs::write("/run/verif-fired", b"1");
        }
        if real_now() - t_start > 25.0 && has_fault && !fired && !has_natural && tasks >= max_tasks {
            println!("{{\"not_fired\":true}}");
            std::process::exit(3);
        }
        }
    });
    clock_bound_d::thread_manager::run(1000, phc_info);
    let t_end = real_now();
    let fired_s = dv::fault_fired_at().map(|i| i.elapsed().as_secs_f64());
    // remaining threads of this process besides main and the watchdog/aux threads of the harness
    // (a joined thread may take a moment to disappear from /proc: sample for up to half a second and
    // keep the smallest count)
    let mut tasks = usize::MAX;
    for _ in 0..50 {
        let n = std::fs::read_dir("/proc/self/task").map(|d| d.count()).unwrap_or(0);
        tasks = tasks.min(n);
        if n <= 2 {
            break;
        }
        std::thread::sleep(Duration::from_millis(10));
    }
    let nat_ms = NATURAL_AT.load(std::sync::atomic::Ordering::SeqCst);
    println!(
        "{{\"returned\":true,\"run_s\":{:.3},\"since_fault_s\":{},\"tasks\":{},\"since_natural_s\":{}}}",
        t_end - t_start,
        fired_s.map(|x| format!("{:.3}", x)).unwrap_or("null".into()),
        tasks,
        if nat_ms > 0 { format!("{:.3}", t_end - nat_ms as f64 / 1000.0) } else { "null".into() }
    );
    0
}

static NATURAL_AT: std::sync::atomic::AtomicU64 = std::sync::atomic::AtomicU64::new(0);
static NATURAL_IMMEDIATE: std::sync::atomic::AtomicBool = std::sync::atomic::AtomicBool::new(false);

pub struct C15;

#[derive(Debug)]
pub enum FaultObs {
    Returned { run_s: f64, since_fault_s: Option<f64>, tasks: u64, since_natural_s: Option<f64> },
    NotFired,
    Lingering { waited_s: f64 },
    Broken(String),
}

pub fn run_fault_case(case: &FaultCase) -> FaultObs {
    let exe = std::env::current_exe().unwrap_or_else(|_| PathBuf::from("/verif/target/release/vcheck"));
    // always the plain release build of the harness (the relchk build is not needed here)
    let mut cmd = Command::new(exe);
    cmd.arg("c15-child").arg(serde_json::to_string(case).unwrap());
    cmd.stdin(Stdio::null()).stdout(Stdio::piped()).stderr(Stdio::null());
    in_private_run(&mut cmd);
    let mut child = match cmd.spawn() {
        Ok(c) => c,
        Err(e) => return FaultObs::Broken(format!("cannot start the child in a private mount namespace: {}", e)),
    };
    let t0 = real_now();
    // the fault may need a few seconds to be reached (n-th iteration, chrony timeouts); the deadline
    // for the property is counted by the child from the fault itself
    let limit = 25.0 + DEADLINE_S + 10.0;
    let marker = ns_path(child.id(), "/run/verif-fired");
    let mut fired_seen: Option<f64> = None;
    loop {
        match child.try_wait() {
            Ok(Some(_)) => break,
            Ok(None) => {}
            Err(e) => return FaultObs::Broken(e.to_string()),
        }
        if fired_seen.is_none() && marker.exists() {
            fired_seen = Some(real_now());
        }
        let overdue = match fired_seen {
            Some(t) => real_now() - t > DEADLINE_S + 1.0,
            None => real_now() - t0 > limit,
        };
        if overdue {
            kill_and_wait(&mut child);
            return FaultObs::Lingering { waited_s: real_now() - fired_seen.unwrap_or(t0) };
        }
        real_sleep(Duration::from_millis(20));
    }
    let mut out = String::new();
    if let Some(mut so) = child.stdout.take() {
        use std::io::Read;
        let _ = so.read_to_string(&mut out);
    }
    let line = out.lines().last().unwrap_or("");
    let v: serde_json::Value = serde_json::from_str(line).unwrap_or(serde_json::Value::Null);
    if v.get("not_fired").is_some() {
        return FaultObs::NotFired;
    }
    if v.get("returned").is_some() {
        return FaultObs::Returned {
            run_s: v["run_s"].as_f64().unwrap_or(0.0),
            since_fault_s: v["since_fault_s"].as_f64(),
            tasks: v["tasks"].as_u64().unwrap_or(0),
            since_natural_s: v["since_natural_s"].as_f64(),
        };
    }
    FaultObs::Broken(format!("child printed {:?}", out))
}

fn check_c15_case(case: &FaultCase, _env: &mut Env) -> Verdict {
    let mut v = Verdict::default();
    if let Some((name, nth, panic)) = &case.fault {
        v.label(if name.starts_with("poller") { "poller-fails" } else { "writer-fails" });
        v.label(if *panic { "panic" } else { "early-return" });
        if *nth >= 1 || case.chrony == ChronyMode::Answering {
            v.nontrivial = true;
        }
        if *nth >= 1 {
            v.label("later-iteration");
        }
    }
    match case.chrony {
        ChronyMode::Absent => v.label("chronyd-absent"),
        ChronyMode::Silent => v.label("chronyd-silent"),
        ChronyMode::Answering => v.label("chronyd-answering"),
    }
    if case.stall.is_some() {
        v.label("other-worker-held-up");
        v.nontrivial = true;
    }
    if case.natural != Natural::None {
        v.label("natural-fault");
        v.nontrivial = true;
    }
    match run_fault_case(case) {
        FaultObs::Returned { run_s, since_fault_s, tasks, since_natural_s } => {
            v.label("daemon-exited");
            let since = since_fault_s.or(since_natural_s).unwrap_or(run_s);
            if since > DEADLINE_S {
                v.fail(format!("the daemon needed {:.1} s to exit after the worker failed ({:?})", since, case));
            }
            // main + the harness's watchdog (+ the PHC file changer): anything else is a worker left behind
            let allowed = 2 + if case.natural == Natural::PhcTurnsUnparsable { 1 } else { 0 };
            if tasks > allowed {
                v.fail(format!("thread_manager::run() returned but {} threads are still alive in the process (expected at most {})", tasks, allowed));
            }
            if case.fault.is_some() && since_fault_s.is_none() {
                // run() returned although the armed fault never fired: some other failure ended the daemon
                v.label("ended-before-fault");
            }
        }
        FaultObs::NotFired => v.label("fault-point-not-reached"),
        FaultObs::Lingering { waited_s } => {
            v.fail(format!("the daemon was still running {:.0} s after the worker failed: it lingers with part of the pipeline dead ({:?})", waited_s, case));
        }
        FaultObs::Broken(m) => v.fail(format!("harness problem: {}", m)),
    }
    v
}

fn c15_strategy() -> BoxedStrategy<FaultCase> {
    let point = prop_oneof![
        7 => (0usize..7).prop_map(|i| (POLLER_POINTS[i].to_string(), true)),
        4 => (0usize..4).prop_map(|i| (WRITER_POINTS_LOOP[i].to_string(), true)),
        4 => (0usize..4).prop_map(|i| (WRITER_POINTS_NESTED[i].to_string(), false)),
    ];
    (
        point,
        0u32..3,
        any::<bool>(),
        prop_oneof![Just(ChronyMode::Absent), Just(ChronyMode::Silent), Just(ChronyMode::Answering)],
        prop_oneof![3 => Just(0u32), 1 => 0u32..900],
        prop_oneof![3 => Just(0u32), 1 => 0u32..3000],
        prop_oneof![2 => Just(None), 1 => (0usize..11, 0u32..1500).prop_map(Some)],
    )
        .prop_map(|((name, can_return), nth, panic, chrony, reply_delay_ms, fault_delay_ms, stall)| {
            // keep the fault point reachable: in_clock_update needs reports, in_missing_update outages
            let chrony = match name.as_str() {
                "writer:in_clock_update" => ChronyMode::Answering,
                "writer:in_missing_update" if chrony == ChronyMode::Answering => ChronyMode::Absent,
                _ => chrony,
            };
            let nth = if name.ends_with(":startup") || name == "writer:after_new" { 0 } else { nth };
            // the other worker is held up at one of its own points
            let stall = stall.map(|(i, ms): (usize, u32)| {
                let other: Vec<&str> = if name.starts_with("poller") { WRITER_POINTS_LOOP.to_vec() } else { POLLER_POINTS.to_vec() };
                (other[i % other.len()].to_string(), ms)
            });
            (name, can_return, nth, panic, chrony, reply_delay_ms, fault_delay_ms, stall)
        })
        .prop_map(|(name, can_return, nth, panic, chrony, reply_delay_ms, fault_delay_ms, stall)| FaultCase {
            fault: Some((name, nth, panic || !can_return)),
            chrony,
            natural: Natural::None,
            reply_delay_ms,
            fault_delay_ms,
            stall,
        })
        .boxed()
}

impl Property for C15 {
    type Case = FaultCase;
    const ID: &'static str = "C15";
    const LEVEL: &'static str = "fault_enumeration";
    fn rule() -> String {
        "enumerated: worker in {poller, writer} x named fault point (poller: startup, loop top, after the clock read, before/after send, before/after recv; writer: startup, after ShmWriter::new, loop top, after a message, inside process_clock_update / process_missing_clock_update, before/after the segment write) x n-th time the point is reached (0,1 quick; 0,1,2 thorough) x kind (panic; early return where that ends the thread) x chronyd (absent; silent = 3 s of timeouts per query; answering), plus a writer that lingers 0.5-2.5 s at the fault point before dying during a chronyd outage (the poller is then in the middle of its iteration, not waiting on its mailbox), plus an answering chronyd whose replies take 150-950 ms (quick: 700 ms) x five fault points, plus one worker failing at start-up / early while the other is held up for 400 ms (thorough: 50-1500 ms) at one of its own points, plus a writer held up for 10 s (its mailbox fills with ten polls' worth of messages) before the poller fails, plus hook-free natural faults (/run/clockbound is a regular file; PHC error-bound file unparsable from the start / turning unparsable after 1.5 s). Generated in addition: random combinations with random reply delays. Each case: thread_manager::run() in a child process inside a private mount namespace. Oracle: run() returns within 12 s of the failure (legitimate worst case ~4 s: 1 s poll sleep + 3 x 1 s chrony timeouts) and no worker thread is left alive; a child still running 13 s after the failure (or 47 s after start when the failure never happens) is killed and reported as lingering. Non-trivial: iteration >= 1, an answering chronyd, or a natural fault.".into()
    }
    fn assumptions() -> Vec<String> {
        vec!["promptness is decided with a 12 s deadline (3x the legitimate worst case); interleavings of the death notifications are those the OS scheduler produces plus the injected reply delays".into()]
    }
    fn cases(tier: Tier) -> u64 {
        match tier {
            Tier::Quick => 32,
            Tier::Thorough => 600,
        }
    }
    fn strategy(_tier: Tier) -> BoxedStrategy<FaultCase> {
        c15_strategy()
    }
    fn check(case: &FaultCase, env: &mut Env) -> Verdict {
        check_c15_case(case, env)
    }
    fn max_shrink_iters(_t: Tier) -> u32 {
        2
    }
    fn extra(tier: Tier, env: &mut Env, _seed: u64) -> Extra {
        // the enumerated fault set, 16 cases at a time
        let mut ex = Extra::default();
        let max_nth = if tier == Tier::Quick { 1 } else { 2 };
        let mut cases: Vec<FaultCase> = vec![];
        // long outages: the writer dies after several "not responding" messages (any back-off or
        // other state the poller builds up during an outage must not delay the exit)
        for p in ["writer:after_message", "writer:before_write"] {
            for nth in if tier == Tier::Quick { vec![2u32, 3] } else { vec![1u32, 2, 3, 4, 5] } {
                for delay in if tier == Tier::Quick { vec![0u32, 1500] } else { vec![0u32, 500, 1500, 2500] } {
                    cases.push(FaultCase {
                        fault: Some((p.to_string(), nth, true)),
                        chrony: ChronyMode::Absent,
                        natural: Natural::None,
                        reply_delay_ms: 0,
                        fault_delay_ms: delay,
                        stall: None,
                    });
                }
            }
        }
        // a chronyd that answers, but slowly (below the 1 s client time-out): whatever the poller does
        // with late replies must not keep it away from its mailbox or from the writer's
        for delay in if tier == Tier::Quick { vec![700u32] } else { vec![150u32, 400, 700, 950] } {
            for (p, nth) in [("writer:after_message", 1u32), ("writer:before_write", 0), ("writer:in_clock_update", 1), ("writer:after_new", 0), ("poller:after_send", 1)] {
                cases.push(FaultCase {
                    fault: Some((p.to_string(), nth, true)),
                    chrony: ChronyMode::Answering,
                    natural: Natural::None,
                    reply_delay_ms: delay,
                    fault_delay_ms: 0,
                    stall: None,
                });
            }
        }
        // one worker fails at start-up or early while the other one is slow to start (or slow at a
        // later point): notifications then arrive before / while the survivor sets itself up
        for (fault, nth, stall_at) in [
            ("poller:startup", 0u32, "writer:startup"),
            ("poller:startup", 0, "writer:after_new"),
            ("poller:loop_top", 0, "writer:startup"),
            ("poller:after_clock_read", 0, "writer:after_new"),
            ("poller:loop_top", 1, "writer:loop_top"),
            ("writer:startup", 0, "poller:startup"),
            ("writer:after_new", 0, "poller:startup"),
            ("writer:after_new", 0, "poller:loop_top"),
            ("writer:loop_top", 0, "poller:after_clock_read"),
        ] {
            for ms in if tier == Tier::Quick { vec![400u32] } else { vec![50u32, 400, 1500] } {
                for chrony in [ChronyMode::Absent, ChronyMode::Answering] {
                    cases.push(FaultCase {
                        fault: Some((fault.to_string(), nth, true)),
                        chrony,
                        natural: Natural::None,
                        reply_delay_ms: 0,
                        fault_delay_ms: 0,
                        stall: Some((stall_at.to_string(), ms)),
                    });
                }
            }
        }
        // a worker that is held up for a long time (10 s: ten polls' worth of messages pile up in its
        // mailbox) while the other one then fails: the notifications must still get through
        for (fault, nth, stall_at) in [("poller:loop_top", 11u32, "writer:after_message"), ("poller:before_send", 12, "writer:loop_top")] {
            cases.push(FaultCase {
                fault: Some((fault.to_string(), nth, true)),
                chrony: ChronyMode::Absent,
                natural: Natural::None,
                reply_delay_ms: 0,
                fault_delay_ms: 0,
                stall: Some((stall_at.to_string(), 10_000)),
            });
        }
        for chrony in [ChronyMode::Absent, ChronyMode::Answering, ChronyMode::Silent] {
            if tier == Tier::Quick && chrony == ChronyMode::Silent {
                // quick: the silent chronyd only with a subset of the points (each costs >= 3 s)
            }
            for nth in 0..=max_nth {
                for p in POLLER_POINTS.iter().chain(WRITER_POINTS_LOOP.iter()) {
                    if (*p == "poller:startup" || *p == "writer:startup" || *p == "writer:after_new") && nth > 0 {
                        continue;
                    }
                    for panic in [true, false] {
                        if tier == Tier::Quick && chrony == ChronyMode::Silent && !(panic && nth == 0) {
                            continue;
                        }
                        cases.push(FaultCase {
                            fault: Some((p.to_string(), nth, panic)),
                            chrony: chrony.clone(),
                            natural: Natural::None,
                            reply_delay_ms: 0,
                            fault_delay_ms: 0,
                            stall: None,
                        });
                    }
                }
                for p in WRITER_POINTS_NESTED.iter() {
                    // in_clock_update needs an answering chronyd, in_missing_update a failing one
                    if *p == "writer:in_clock_update" && chrony != ChronyMode::Answering {
                        continue;
                    }
                    if *p == "writer:in_missing_update" && chrony == ChronyMode::Answering {
                        continue;
                    }
                    if tier == Tier::Quick && chrony == ChronyMode::Silent && nth > 0 {
                        continue;
                    }
                    cases.push(FaultCase {
                        fault: Some((p.to_string(), nth, true)),
                        chrony: chrony.clone(),
                        natural: Natural::None,
                        reply_delay_ms: 0,
                        fault_delay_ms: 0,
                        stall: None,
                    });
                }
            }
        }
        for nat in [Natural::RunDirIsFile, Natural::PhcUnparsable, Natural::PhcTurnsUnparsable] {
            cases.push(FaultCase {
                fault: None,
                chrony: if nat == Natural::RunDirIsFile { ChronyMode::Absent } else { ChronyMode::Answering },
                natural: nat,
                reply_delay_ms: 0,
                fault_delay_ms: 0,
                stall: None,
            });
        }
        let results: Vec<(FaultCase, Verdict)> = std::thread::scope(|s| {
            let chunks: Vec<Vec<FaultCase>> = (0..16).map(|k| cases.iter().skip(k).step_by(16).cloned().collect()).collect();
            let handles: Vec<_> = chunks
                .into_iter()
                .map(|chunk| {
                    s.spawn(move || {
                        let mut e = Env::new(std::path::Path::new("/dev/shm/clockbound-verif-c15"), Tier::Quick, 0);
                        chunk.into_iter().map(|c| { tick(); let v = check_c15_case(&c, &mut e); tick(); (c, v) }).collect::<Vec<_>>()
                    })
                })
                .collect();
            handles.into_iter().flat_map(|h| h.join().unwrap_or_default()).collect()
        });
        let _ = env;
        for (c, vd) in results {
            ex.evaluations += 1;
            if vd.nontrivial {
                ex.nontrivial_hashes.push(hash_str(&serde_json::to_string(&c).unwrap()));
            }
            for l in &vd.labels {
                ex.label(&format!("enumerated:{}", l));
            }
            if ex.samples.len() < 3 && vd.nontrivial {
                ex.samples.push(serde_json::json!({"enumerated_case": c, "labels": vd.labels}));
            }
            if let Some(m) = vd.fail {
                if ex.failure.is_none() {
                    ex.failure = Some((m, serde_json::to_value(&c).unwrap()));
                }
            }
        }
        ex.exhaustive_note = Some(format!("the fault set described in 'rule' with n-th <= {}", max_nth));
        ex
    }
}
