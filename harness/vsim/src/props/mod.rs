pub mod client;
pub mod daemon;
pub mod e2e;
pub mod files;
pub mod poller;
pub mod process;
pub mod shm;
pub mod wholeproc;
