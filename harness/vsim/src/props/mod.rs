pub mod client;
pub mod daemon;
pub mod shm;
