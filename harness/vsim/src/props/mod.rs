pub mod client;
