pub mod client;
pub mod daemon;
