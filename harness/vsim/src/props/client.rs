//! C05 (interval shape), C06 (status decay), C14 (clean failure) on the three client entry points:
//! `ClockErrorBound::now()`, `ClockBoundClient::now()` on a segment file, and `clockbound_now()`
//! through the C driver, all under the virtual clock (M1).

use crate::cdrv::CDriver;
use crate::clock::{timespec_to_ns, VClock};
use crate::layout::{segment_bytes, Hdr, Rec};
use crate::model::*;
use crate::runner::*;
use clock_bound_client::{ClockBoundClient, ClockBoundErrorKind};
use clock_bound_shm::ShmError;
use proptest::prelude::*;
use serde::{Deserialize, Serialize};
use std::os::unix::fs::FileExt;

#[derive(Clone, Debug, Serialize, Deserialize, PartialEq)]
pub struct NowCase {
    pub rec: Rec,
    pub real_ns: i64,
    pub mono_ns: i64,
    /// second monotonic reading = mono_ns + mono2_delta (metamorphic "older record" check)
    pub mono2_delta: u64,
    /// also evaluate through the C library
    pub use_c: bool,
}

/// Per-worker persistent resources.
pub struct Entries {
    path_rust: std::path::PathBuf,
    file_rust: std::fs::File,
    client: ClockBoundClient,
    gen_rust: u16,
    path_c: std::path::PathBuf,
    file_c: std::fs::File,
    cdrv: Option<CDriver>,
    gen_c: u16,
    pub blur: Option<i128>,
}

fn next_gen(g: u16) -> u16 {
    let n = g.wrapping_add(2);
    if n == 0 {
        2
    } else {
        n
    }
}

impl Entries {
    pub fn new(env: &mut Env) -> Entries {
        let path_rust = env.fresh_path("seg-rust");
        let path_c = env.fresh_path("seg-c");
        let init = segment_bytes(&Hdr::valid(2), &Rec::default());
        std::fs::write(&path_rust, &init).unwrap();
        std::fs::write(&path_c, &init).unwrap();
        let file_rust = std::fs::OpenOptions::new().write(true).open(&path_rust).unwrap();
        let file_c = std::fs::OpenOptions::new().write(true).open(&path_c).unwrap();
        let client = ClockBoundClient::new_with_path(path_rust.to_str().unwrap()).expect("open rust client");
        let mut cdrv = CDriver::spawn("static").ok();
        if let Some(d) = cdrv.as_mut() {
            if d.open(path_c.to_str().unwrap()).is_err() {
                cdrv = None;
            }
        }
        Entries {
            path_rust,
            file_rust,
            client,
            gen_rust: 2,
            path_c,
            file_c,
            cdrv,
            gen_c: 2,
            blur: None,
        }
    }
    pub fn has_c(&self) -> bool {
        self.cdrv.is_some()
    }
}

impl Drop for Entries {
    fn drop(&mut self) {
        let _ = std::fs::remove_file(&self.path_rust);
        let _ = std::fs::remove_file(&self.path_c);
    }
}

pub fn shm_err_to_out(e: ShmError) -> NowOut {
    match e {
        ShmError::SyscallError(errno, detail) => NowOut::Err {
            kind: ErrKind::Syscall,
            errno: errno.0,
            detail: detail.to_string_lossy().to_string(),
        },
        ShmError::SegmentNotInitialized => NowOut::Err {
            kind: ErrKind::NotInitialized,
            errno: 0,
            detail: String::new(),
        },
        ShmError::SegmentMalformed => NowOut::Err {
            kind: ErrKind::Malformed,
            errno: 0,
            detail: String::new(),
        },
        ShmError::CausalityBreach => NowOut::Err {
            kind: ErrKind::Causality,
            errno: 0,
            detail: String::new(),
        },
    }
}

pub fn client_err_to_out(e: clock_bound_client::ClockBoundError) -> NowOut {
    NowOut::Err {
        kind: match e.kind {
            ClockBoundErrorKind::Syscall => ErrKind::Syscall,
            ClockBoundErrorKind::SegmentNotInitialized => ErrKind::NotInitialized,
            ClockBoundErrorKind::SegmentMalformed => ErrKind::Malformed,
            ClockBoundErrorKind::CausalityBreach => ErrKind::Causality,
        },
        errno: e.errno.0,
        detail: e.detail,
    }
}

fn guard<T>(what: &str, f: impl FnOnce() -> T) -> Result<T, String> {
    std::panic::catch_unwind(std::panic::AssertUnwindSafe(f)).map_err(|p| {
        let msg = p
            .downcast_ref::<String>()
            .cloned()
            .or_else(|| p.downcast_ref::<&str>().map(|s| s.to_string()))
            .unwrap_or_default();
        format!("{} panicked: {}", what, msg)
    })
}

/// Entry point 1: the record struct's own now().
pub fn eval_struct(rec: &Rec, real_ns: i128, mono_ns: i128) -> Result<NowOut, String> {
    let vc = VClock::new(mono_ns, real_ns);
    let _g = vc.install();
    let ceb = rec.to_ceb();
    guard("ClockErrorBound::now()", || match ceb.now() {
        Ok((e, l, s)) => NowOut::Ok {
            earliest_ns: timespec_to_ns(&e),
            latest_ns: timespec_to_ns(&l),
            status: crate::layout::status_to_i32(s),
        },
        Err(e) => shm_err_to_out(e),
    })
}

/// Entry point 2: the Rust client on a segment file holding the record.
pub fn eval_client(en: &mut Entries, rec: &Rec, real_ns: i128, mono_ns: i128) -> Result<NowOut, String> {
    // The client is long-lived. Before the record under test it reads, through a complete earlier
    // publication, the same measurement with the strongest status (what the daemon publishes before
    // chrony loses synchronisation): whatever the reader keeps from one publication to the next must
    // not leak into the answer for the record under test.
    if rec.status != 1 {
        let earlier = Rec { status: 1, ..*rec };
        en.gen_rust = next_gen(en.gen_rust);
        en.file_rust.write_all_at(&segment_bytes(&Hdr::valid(en.gen_rust), &earlier), 0).map_err(|e| e.to_string())?;
        let vc = VClock::new(mono_ns, real_ns);
        let _g = vc.install();
        let client = &mut en.client;
        let _ = guard("ClockBoundClient::now()", || match client.now() {
            Ok(_) => NowOut::Ok { earliest_ns: 0, latest_ns: 0, status: 0 },
            Err(e) => client_err_to_out(e),
        });
    }
    en.gen_rust = next_gen(en.gen_rust);
    let bytes = segment_bytes(&Hdr::valid(en.gen_rust), rec);
    en.file_rust.write_all_at(&bytes, 0).map_err(|e| e.to_string())?;
    let vc = VClock::new(mono_ns, real_ns);
    let _g = vc.install();
    let client = &mut en.client;
    guard("ClockBoundClient::now()", || match client.now() {
        Ok(r) => NowOut::Ok {
            earliest_ns: timespec_to_ns(r.earliest.as_ref()),
            latest_ns: timespec_to_ns(r.latest.as_ref()),
            status: crate::layout::status_to_i32(r.clock_status),
        },
        Err(e) => client_err_to_out(e),
    })
}

/// Entry point 3: the C library through the driver.
pub fn eval_c(en: &mut Entries, rec: &Rec, real_ns: i128, mono_ns: i128) -> Result<NowOut, String> {
    // The driver keeps one clockbound_ctx for the whole run, as a long-lived client does. So that a
    // case does not depend on the cases before it, the context first makes a call that fails
    // (malformed drift rate) and then, in half of the cases, one that succeeds: the call under test
    // follows a failure or a success, as the case decides.
    {
        let after_failure = (rec.bound ^ rec.as_of_ns ^ rec.drift as i64) & 1 == 1;
        for drift in if after_failure { vec![1_000_000_000u32] } else { vec![1_000_000_000u32, 0] } {
            let prime = Rec {
                as_of_s: 1000,
                as_of_ns: 0,
                void_s: 2000,
                void_ns: 0,
                bound: 1,
                drift,
                reserved: 0,
                status: 1,
            };
            en.gen_c = next_gen(en.gen_c);
            en.file_c.write_all_at(&segment_bytes(&Hdr::valid(en.gen_c), &prime), 0).map_err(|e| e.to_string())?;
            let d = en.cdrv.as_mut().ok_or("no C driver")?;
            d.set_time(1_700_000_000_000_000_000, 1001 * crate::clock::NS);
            let _ = d.now();
        }
    }
    en.gen_c = next_gen(en.gen_c);
    let bytes = segment_bytes(&Hdr::valid(en.gen_c), rec);
    en.file_c.write_all_at(&bytes, 0).map_err(|e| e.to_string())?;
    let d = en.cdrv.as_mut().ok_or("no C driver")?;
    d.set_time(real_ns, mono_ns);
    let out = d.now();
    if !d.alive() {
        return Err("the C library crashed the driver process".into());
    }
    Ok(out)
}

pub fn entries(env: &mut Env) -> &mut Entries {
    if !env.any.contains_key("entries") {
        let e = Entries::new(env);
        env.any.insert("entries", Box::new(e));
    }
    env.any.get_mut("entries").unwrap().downcast_mut::<Entries>().unwrap()
}

// ------------------------------------------------------------------------------------------------
// strategies

fn log_uniform_i64(max_bits: u32) -> BoxedStrategy<i64> {
    (0u32..max_bits)
        .prop_flat_map(|e| {
            let lo = 1i64 << e;
            let hi = if e + 1 >= 63 { i64::MAX } else { 1i64 << (e + 1) };
            lo..hi
        })
        .boxed()
}

pub fn bound_strategy() -> BoxedStrategy<i64> {
    prop_oneof![
        2 => Just(0i64),
        1 => Just(1i64),
        2 => 0i64..100_000,
        6 => log_uniform_i64(60),
        1 => Just((1i64 << 60) - 1),
    ]
    .boxed()
}

pub fn drift_ok_strategy() -> BoxedStrategy<u32> {
    prop_oneof![
        1 => Just(0u32),
        1 => Just(1u32),
        1 => Just(999u32),
        2 => Just(1000u32),
        2 => Just(50_000u32),
        1 => Just(999_999_999u32),
        4 => 0u32..1_000_000_000,
        2 => 0u32..1_000_000,
    ]
    .boxed()
}

fn nsec_strategy() -> BoxedStrategy<i64> {
    prop_oneof![
        2 => Just(0i64),
        2 => Just(999_999_999i64),
        1 => Just(1i64),
        6 => 0i64..1_000_000_000,
    ]
    .boxed()
}

/// age = mono - as_of, in ns, constructed by class.
fn age_strategy() -> BoxedStrategy<i64> {
    prop_oneof![
        2 => Just(0i64),
        1 => Just(1i64),
        2 => 1i64..4_000_000,                                   // sub-tick
        3 => 0i64..1_000_000_000,                               // below one second
        3 => 0i64..12_000_000_000,                              // straddles seconds and the 5 s mark
        3 => (0i64..2000, 0i64..1_000_000_000).prop_map(|(s, n)| s * 1_000_000_000 + n),
        3 => (0i64..100_000, 0i64..1_000_000_000).prop_map(|(s, n)| s * 1_000_000_000 + n), // hours
        1 => -999i64..0,                                       // monotonic reading up to 999 ns before as_of
    ]
    .boxed()
}

fn void_extra_strategy() -> BoxedStrategy<i64> {
    // void_after - (as_of + 5 s)
    prop_oneof![
        2 => Just(0i64),
        1 => Just(1i64),
        4 => Just(-1i64), // marker: daemon shape (as_of.sec + 1000, 0)
        3 => 0i64..200_000_000_000_000,
    ]
    .boxed()
}

fn real_strategy() -> BoxedStrategy<i64> {
    let max = (1i64 << 31) * 1_000_000_000;
    prop_oneof![
        4 => -max..max,
        2 => (1_600_000_000i64..1_900_000_000, nsec_strategy()).prop_map(|(s, n)| s * 1_000_000_000 + n),
        2 => -2_000_000_000i64..2_000_000_000,                  // around the epoch
        1 => (0i64..1_000_000, prop_oneof![Just(0i64), Just(1), Just(999_999_999)]).prop_map(|(s, n)| s * 1_000_000_000 + n),
    ]
    .boxed()
}

fn make_rec(as_of_s: i64, as_of_ns: i64, void_extra: i64, bound: i64, drift: u32, reserved: u32, status: i32) -> Rec {
    let (void_s, void_ns) = if void_extra < 0 {
        (as_of_s + 1000, 0)
    } else {
        let v = as_of_s as i128 * NS + as_of_ns as i128 + GRACE_NS + void_extra as i128;
        (v.div_euclid(NS) as i64, v.rem_euclid(NS) as i64)
    };
    Rec {
        as_of_s,
        as_of_ns,
        void_s,
        void_ns,
        bound,
        drift,
        reserved,
        status,
    }
}

pub fn c05_strategy() -> BoxedStrategy<NowCase> {
    (
        (0i64..((1i64 << 31) - 300_000), nsec_strategy(), void_extra_strategy()),
        (bound_strategy(), drift_ok_strategy(), any::<u32>(), 0i32..3),
        age_strategy(),
        real_strategy(),
        prop_oneof![Just(0u64), Just(1u64), 0u64..2_000_000_000, 0u64..100_000_000_000_000],
        prop::bool::weighted(0.12),
    )
        .prop_map(|((s, n, ve), (b, d, r, st), age, real, m2, use_c)| {
            let rec = make_rec(s, n, ve, b, d, r, st);
            let mono = rec.as_of_ns_total() + age as i128;
            NowCase {
                rec,
                real_ns: real,
                mono_ns: mono as i64,
                mono2_delta: m2,
                use_c,
            }
        })
        .boxed()
}

// ------------------------------------------------------------------------------------------------
// C05

pub struct C05;

fn half_widths(out: &NowOut, real_ns: i128) -> Option<(i128, i128, i128, i128)> {
    match out {
        NowOut::Ok { earliest_ns, latest_ns, .. } => Some((real_ns - earliest_ns, latest_ns - real_ns, *earliest_ns, *latest_ns)),
        _ => None,
    }
}

pub fn check_c05_case(case: &NowCase, env: &mut Env) -> Verdict {
    let mut v = Verdict::default();
    let rec = &case.rec;
    let real = case.real_ns as i128;
    let mono = case.mono_ns as i128;
    let age = mono - rec.as_of_ns_total();
    let g_num = rec.drift as i128 * age;
    if age > 0 && g_num % NS != 0 {
        v.label("fractional-growth");
        v.nontrivial = true;
    }
    if rec.as_of_ns != 0 && mono.rem_euclid(NS) != 0 {
        v.label("nsec-on-both");
        v.nontrivial = true;
    }
    if age > 0 && age < 4_000_000 {
        v.label("sub-tick-age");
    }
    if age == 0 {
        v.label("zero-age");
    }
    if age >= 3600 * NS {
        v.label("age-hours");
    }
    if rec.drift >= 100_000_000 {
        v.label("large-drift");
    }
    if mono.div_euclid(NS) != rec.as_of_s as i128 {
        v.label("second-boundary-crossed");
        v.nontrivial = true;
    }
    let s1 = match eval_struct(rec, real, mono) {
        Ok(o) => o,
        Err(e) => {
            v.fail(e);
            return v;
        }
    };
    if age < 0 {
        v.label("reading-just-before-as-of");
        v.nontrivial = true;
        if matches!(s1, NowOut::Err { kind: ErrKind::Causality, .. }) {
            // where the tolerated blur ends is C14's subject
            v.label("reading-just-before-as-of:causality-error");
            return v;
        }
    }
    // a reading just before as_of is either refused or treated as age 0: never a negative age
    let age = age.max(0);
    let Some((hl, hh, e, l)) = half_widths(&s1, real) else {
        v.fail(format!("now() returned {:?} for a record and readings in the meaningful range", s1));
        return v;
    };
    if e > l {
        v.fail(format!("earliest {} > latest {}", e, l));
    }
    if hl != hh {
        v.fail(format!("interval not symmetric around the realtime reading: real-earliest={} latest-real={}", hl, hh));
    }
    if (real - hl).div_euclid(NS) != real.div_euclid(NS) || (real + hl).div_euclid(NS) != real.div_euclid(NS) {
        v.label("interval-crosses-second");
    }
    if e < 0 && l >= 0 {
        v.label("interval-crosses-epoch");
    }
    if let Err(m) = check_half_width(rec, age, hl) {
        v.fail(m);
    }
    // metamorphic: an older reading of the same record never has a smaller half-width
    let mono2 = mono + case.mono2_delta as i128;
    v.sub_evals += 1;
    match eval_struct(rec, real, mono2) {
        Ok(o2) => match half_widths(&o2, real) {
            Some((h2, _, _, _)) => {
                if h2 < hl {
                    v.fail(format!("half-width shrank with age: {} at age {} but {} at age {}", hl, age, h2, age + case.mono2_delta as i128));
                }
            }
            None => v.fail(format!("now() returned {:?} at the later reading", o2)),
        },
        Err(m) => v.fail(m),
    }
    // the other entry points agree exactly
    let en = entries(env);
    v.sub_evals += 1;
    match eval_client(en, rec, real, mono) {
        Ok(o) => {
            if o != s1 {
                v.fail(format!("ClockBoundClient::now() = {:?} differs from ClockErrorBound::now() = {:?}", o, s1));
            }
        }
        Err(m) => v.fail(m),
    }
    if case.use_c && en.has_c() {
        v.label("via-c-library");
        v.sub_evals += 1;
        match eval_c(en, rec, real, mono) {
            Ok(o) => {
                if o != s1 {
                    v.fail(format!("clockbound_now() = {:?} differs from ClockErrorBound::now() = {:?}", o, s1));
                }
            }
            Err(m) => v.fail(m),
        }
    }
    v
}

impl Property for C05 {
    type Case = NowCase;
    const ID: &'static str = "C05";
    fn rule() -> String {
        "cases = (record, realtime, monotonic, later monotonic) built by construction: bound log-uniform in [0,2^60) plus edges, drift < 1e9 ppb with edges, as_of any (sec,nsec) incl. nsec 0/999999999, age = mono-as_of by class (0, 1 ns, sub-tick, <1 s, <12 s, <2000 s, hours, and 1..999 ns *before* as_of: refused or treated as age 0, never a negative age), void_after >= as_of+5 s, all three statuses, realtime independent of monotonic. Oracle: exact i128/rational arithmetic. Non-trivial: age>0 with a non-integer exact growth, or nsec parts non-zero on both timestamps, or a second boundary between as_of and mono. Distinct = distinct JSON encoding of the case.".into()
    }
    fn assumptions() -> Vec<String> {
        vec![
            "floating-point tolerance on the growth term: max(1e-3 ns, growth * 2^-50); 1 ns of integer truncation allowed below".into(),
            "virtual clock by interposing clock_gettime; the C library is the release libclockbound.a built from /repo".into(),
        ]
    }
    fn cases(tier: Tier) -> u64 {
        match tier {
            Tier::Quick => 2_000_000,
            Tier::Thorough => 20_000_000,
        }
    }
    fn strategy(_tier: Tier) -> BoxedStrategy<NowCase> {
        c05_strategy()
    }
    fn check(case: &NowCase, env: &mut Env) -> Verdict {
        check_c05_case(case, env)
    }
    fn use_checked_build() -> bool {
        true
    }
    fn floors() -> Vec<(&'static str, f64)> {
        vec![
            ("sub-tick-age", 0.03),
            ("age-hours", 0.05),
            ("large-drift", 0.1),
            ("zero-age", 0.03),
            ("fractional-growth", 0.2),
            ("via-c-library", 0.05),
            ("interval-crosses-second", 0.05),
        ]
    }
}

// ------------------------------------------------------------------------------------------------
// C06

pub struct C06;

#[derive(Clone, Debug, Serialize, Deserialize, PartialEq)]
pub struct StatusCase {
    pub rec: Rec,
    pub real_ns: i64,
    pub mono_ns: i64,
    pub use_c: bool,
}

fn c06_strategy() -> BoxedStrategy<StatusCase> {
    (
        (0i64..((1i64 << 31) - 300_000), nsec_strategy(), void_extra_strategy()),
        (bound_strategy(), drift_ok_strategy(), any::<u32>(), 0i32..3),
        // landmark: 0 as_of, 1 as_of+5s, 2 void_after, 3 random position
        (0u8..4, -2i64..3, prop_oneof![3 => 0i64..2_000_000_000_000, 2 => 0i64..100_000_000_000_000]),
        real_strategy(),
        prop::bool::weighted(0.12),
    )
        .prop_map(|((s, n, ve), (b, d, r, st), (lm, off, rnd), real, use_c)| {
            let rec = make_rec(s, n, ve, b, d, r, st);
            let base = match lm {
                0 => rec.as_of_ns_total(),
                1 => rec.as_of_ns_total() + GRACE_NS,
                2 => rec.void_ns_total(),
                _ => rec.as_of_ns_total() + rnd as i128,
            };
            // keep within the blur window on the early side (C14 covers earlier readings)
            let mono = std::cmp::max(base + off as i128, rec.as_of_ns_total() - 2);
            StatusCase {
                rec,
                real_ns: real,
                mono_ns: mono as i64,
                use_c,
            }
        })
        .boxed()
}

fn check_c06_case(case: &StatusCase, env: &mut Env) -> Verdict {
    let mut v = Verdict::default();
    let rec = &case.rec;
    let real = case.real_ns as i128;
    let mono = case.mono_ns as i128;
    let as_of = rec.as_of_ns_total();
    let void_after = rec.void_ns_total();
    let near = |x: i128| (mono - x).abs() <= 1;
    if near(as_of) {
        v.label("at-as-of");
    }
    if near(as_of + GRACE_NS) {
        v.label("at-5s");
    }
    if near(void_after) {
        v.label("at-void-after");
    }
    if near(as_of) || near(as_of + GRACE_NS) || near(void_after) || rec.status != 1 {
        v.nontrivial = true;
    }
    match rec.status {
        0 => v.label("stored-unknown"),
        1 => v.label("stored-synchronized"),
        _ => v.label("stored-freerunning"),
    }
    let want = model_status(rec, mono);
    let judge = |name: &str, out: Result<NowOut, String>, v: &mut Verdict| match out {
        Ok(NowOut::Ok { status, .. }) => {
            if status != want {
                v.fail(format!(
                    "{} reported status {} but the record (stored status {}, as_of {}, void_after {}) read at mono {} justifies {}",
                    name, status, rec.status, as_of, void_after, mono, want
                ));
            }
        }
        Ok(o) => v.fail(format!("{} returned {:?} for a reading not before as_of - 2 ns", name, o)),
        Err(m) => v.fail(m),
    };
    judge("ClockErrorBound::now()", eval_struct(rec, real, mono), &mut v);
    let en = entries(env);
    v.sub_evals += 1;
    judge("ClockBoundClient::now()", eval_client(en, rec, real, mono), &mut v);
    if case.use_c && en.has_c() {
        v.sub_evals += 1;
        v.label("via-c-library");
        judge("clockbound_now()", eval_c(en, rec, real, mono), &mut v);
    }
    v
}

impl Property for C06 {
    type Case = StatusCase;
    const ID: &'static str = "C06";
    fn rule() -> String {
        "cases = record (stored status in {Unknown,Synchronized,FreeRunning}; void_after - as_of in {5 s, 5 s+1 ns, daemon shape (as_of.sec+1000,0), random >= 5 s}) x monotonic reading placed at a landmark (as_of, as_of+5 s, void_after) with offset -2..+2 ns, or at a random position up to 2000 s / up to 28 h after as_of; plus the full enumerated grid statuses x void shapes x landmarks x {-1,0,+1} ns. Oracle: the status table of the C06 statement evaluated in i128. Non-trivial: reading within 1 ns of a landmark, or stored status != Synchronized.".into()
    }
    fn cases(tier: Tier) -> u64 {
        match tier {
            Tier::Quick => 1_000_000,
            Tier::Thorough => 5_000_000,
        }
    }
    fn strategy(_tier: Tier) -> BoxedStrategy<StatusCase> {
        c06_strategy()
    }
    fn check(case: &StatusCase, env: &mut Env) -> Verdict {
        check_c06_case(case, env)
    }
    fn floors() -> Vec<(&'static str, f64)> {
        vec![("at-5s", 0.1), ("at-void-after", 0.1), ("at-as-of", 0.1), ("stored-freerunning", 0.2), ("stored-unknown", 0.2)]
    }
    fn extra(_tier: Tier, env: &mut Env, _seed: u64) -> Extra {
        // enumerated grid: 3 statuses x 4 void shapes x 3 as_of shapes x 3 landmarks x 3 offsets, all entry points
        let mut ex = Extra::default();
        let as_ofs = [(0i64, 0i64), (12345, 999_999_999), (2_000_000_000, 1)];
        let void_extras = [0i64, 1, -1, 777_000_000_123];
        for st in 0..3 {
            for (s, n) in as_ofs {
                for ve in void_extras {
                    let rec = make_rec(s, n, ve, 10_000, 1000, 0, st);
                    let marks = [rec.as_of_ns_total(), rec.as_of_ns_total() + GRACE_NS, rec.void_ns_total()];
                    for (li, lm) in marks.iter().enumerate() {
                        for off in [-1i128, 0, 1] {
                            let mono = lm + off;
                            let case = StatusCase {
                                rec,
                                real_ns: 1_700_000_000_000_000_000,
                                mono_ns: mono as i64,
                                use_c: true,
                            };
                            let vd = check_c06_case(&case, env);
                            ex.evaluations += 1 + vd.sub_evals;
                            ex.label(&format!("grid-landmark-{}", li));
                            ex.nontrivial_hashes.push(hash_str(&serde_json::to_string(&case).unwrap()));
                            if ex.samples.is_empty() && st == 2 && li == 1 {
                                ex.samples.push(serde_json::json!({"grid_case": case}));
                            }
                            if let Some(m) = vd.fail {
                                if ex.failure.is_none() {
                                    ex.failure = Some((m, serde_json::to_value(&case).unwrap()));
                                }
                            }
                        }
                    }
                }
            }
        }
        ex.exhaustive_note = Some("grid: 3 stored statuses x 3 as_of shapes x 4 void_after shapes x 3 landmarks x {-1,0,+1} ns, on all three entry points".into());
        ex
    }
}

// ------------------------------------------------------------------------------------------------
// C14

pub struct C14;

#[derive(Clone, Debug, Serialize, Deserialize, PartialEq)]
pub struct FailCase {
    pub rec: Rec,
    pub real_ns: i64,
    pub mono_ns: i64,
    pub use_c: bool,
}

fn sec31() -> BoxedStrategy<i64> {
    let m = 1i64 << 31;
    prop_oneof![
        1 => Just(-m),
        1 => Just(m),
        1 => Just(m - 1),
        1 => Just(-m + 1),
        1 => Just(0i64),
        1 => Just(-1i64),
        6 => -m..=m,
        2 => 0i64..2_000_000,
    ]
    .boxed()
}

fn drift_any_strategy() -> BoxedStrategy<u32> {
    prop_oneof![
        10 => drift_ok_strategy(),
        1 => Just(1_000_000_000u32),
        1 => Just(1_000_000_001u32),
        1 => Just(u32::MAX),
        1 => Just(999_999_998u32),
        2 => 1_000_000_000u32..=u32::MAX,
    ]
    .boxed()
}

/// d = as_of - mono
fn causality_offset_strategy() -> BoxedStrategy<i128> {
    let span = (1i128 << 32) * NS;
    prop_oneof![
        4 => (-10_000_000i64..10_000_000).prop_map(|x| x as i128),              // +-10 ms at ns resolution
        3 => (-3000i64..3000).prop_map(|x| x as i128),                          // around the code's blur
        2 => prop_oneof![Just(998i128), Just(999), Just(1000), Just(1001), Just(1002), Just(0), Just(1), Just(-1)],
        2 => (-1_000_000i64..1_000_000i64).prop_map(|x| 1_000_000i128 + x as i128), // around the comment's 1 ms
        4 => (0u64..u64::MAX).prop_map(move |x| -((x as i128) % span)),         // normal ages up to 2^32 s
        2 => (0u64..u64::MAX).prop_map(move |x| (x as i128) % span),            // causality breaches of any size
    ]
    .boxed()
}

fn c14_strategy() -> BoxedStrategy<FailCase> {
    (
        (sec31(), nsec_strategy()),
        (sec31(), nsec_strategy()),
        (bound_strategy(), drift_any_strategy(), any::<u32>(), 0i32..3),
        causality_offset_strategy(),
        (sec31(), nsec_strategy()),
        prop::bool::weighted(0.12),
    )
        .prop_map(|((as_s, as_n), (vs, vn), (b, d, r, st), off, (rs, rn), use_c)| {
            let rec = Rec {
                as_of_s: as_s,
                as_of_ns: as_n,
                void_s: vs,
                void_ns: vn,
                bound: b,
                drift: d,
                reserved: r,
                status: st,
            };
            let lim = (1i128 << 31) * NS + 999_999_999;
            let mono = (rec.as_of_ns_total() - off).clamp(-(1i128 << 31) * NS, lim);
            FailCase {
                rec,
                real_ns: (rs as i128 * NS + rn as i128) as i64,
                mono_ns: mono as i64,
                use_c,
            }
        })
        .boxed()
}

/// Locate the blur constant b = smallest d = as_of - mono > 0 for which now() reports a breach.
fn locate_blur() -> Result<i128, String> {
    let rec = Rec {
        as_of_s: 1000,
        as_of_ns: 500,
        void_s: 3000,
        void_ns: 0,
        bound: 7,
        drift: 1000,
        reserved: 0,
        status: 1,
    };
    let breach = |d: i128| -> Result<bool, String> {
        match eval_struct(&rec, 5 * NS, rec.as_of_ns_total() - d)? {
            NowOut::Ok { .. } => Ok(false),
            NowOut::Err { kind: ErrKind::Causality, .. } => Ok(true),
            o => Err(format!("unexpected result {:?} while locating the blur", o)),
        }
    };
    let hi_lim = 10_000_000i128; // 10 ms
    if breach(1)? {
        return Err("a monotonic reading 1 ns before as_of is already reported as a causality breach: no blur is tolerated".into());
    }
    if !breach(hi_lim + 1)? {
        return Err("a monotonic reading more than 10 ms before as_of is accepted: the blur is not a clock-granularity blur".into());
    }
    let (mut lo, mut hi) = (1i128, hi_lim + 1); // !breach(lo), breach(hi)
    while hi - lo > 1 {
        let mid = (lo + hi) / 2;
        if breach(mid)? {
            hi = mid;
        } else {
            lo = mid;
        }
    }
    Ok(hi)
}

fn check_c14_case(case: &FailCase, env: &mut Env) -> Verdict {
    let mut v = Verdict::default();
    let en = entries(env);
    let blur = match en.blur {
        Some(b) => b,
        None => match locate_blur() {
            Ok(b) => {
                en.blur = Some(b);
                b
            }
            Err(m) => {
                v.fail(m);
                return v;
            }
        },
    };
    let rec = &case.rec;
    let real = case.real_ns as i128;
    let mono = case.mono_ns as i128;
    let d = rec.as_of_ns_total() - mono;
    let m31 = 1i64 << 31;
    if (d - blur).abs() <= 2 {
        v.label("at-blur-edge");
        v.nontrivial = true;
    }
    if [rec.as_of_s, rec.void_s].iter().any(|s| s.abs() >= m31 - 2) || real.abs() >= (m31 as i128 - 2) * NS || mono.abs() >= (m31 as i128 - 2) * NS {
        v.label("extreme-timestamp");
        v.nontrivial = true;
    }
    if rec.bound >= 1i64 << 59 {
        v.label("huge-bound");
        v.nontrivial = true;
    }
    if (rec.drift as i64 - 1_000_000_000).abs() <= 2 {
        v.label("drift-at-threshold");
        v.nontrivial = true;
    }
    let cls = age_class(rec, mono, blur);
    let expect_malformed = rec.drift >= 1_000_000_000;
    if expect_malformed {
        v.label("expect-malformed");
    } else {
        match cls {
            AgeClass::Normal(_) => v.label("expect-ok"),
            AgeClass::Blur => v.label("expect-ok-within-blur"),
            AgeClass::Edge => v.label("blur-exact-edge"),
            AgeClass::Breach => v.label("expect-causality"),
        }
    }
    let judge = |name: &str, out: Result<NowOut, String>, v: &mut Verdict| {
        let out = match out {
            Ok(o) => o,
            Err(m) => {
                v.fail(m);
                return;
            }
        };
        if expect_malformed {
            if out != (NowOut::Err { kind: ErrKind::Malformed, errno: 0, detail: String::new() }) {
                v.fail(format!("{}: drift {} ppb >= 1e9 must yield the malformed-segment error (errno 0, no detail), got {:?}", name, rec.drift, out));
            }
            return;
        }
        let causality = NowOut::Err {
            kind: ErrKind::Causality,
            errno: 0,
            detail: String::new(),
        };
        match (cls, &out) {
            (AgeClass::Breach, o) => {
                if *o != causality {
                    v.fail(format!("{}: mono precedes as_of by {} ns (> blur {} ns): expected the causality error, got {:?}", name, d, blur, o));
                }
            }
            (AgeClass::Edge, o) if *o == causality => {}
            (AgeClass::Normal(_), NowOut::Ok { .. }) | (AgeClass::Blur, NowOut::Ok { .. }) | (AgeClass::Edge, NowOut::Ok { .. }) => {
                let age = match cls {
                    AgeClass::Normal(a) => a,
                    _ => 0,
                };
                if let NowOut::Ok { earliest_ns, latest_ns, status } = out {
                    let (hl, hh) = (real - earliest_ns, latest_ns - real);
                    if hl != hh {
                        v.fail(format!("{}: interval not symmetric: {} vs {}", name, hl, hh));
                    }
                    if !matches!(cls, AgeClass::Normal(_)) && hl != rec.bound as i128 {
                        v.fail(format!("{}: within the blur the age must be treated as zero: half-width {} != bound {}", name, hl, rec.bound));
                    }
                    if let Err(m) = check_half_width(rec, age, hl) {
                        v.fail(format!("{}: {}", name, m));
                    }
                    let want = model_status(rec, mono);
                    // void_after may precede as_of + 5 s in this domain; the C06 table is only stated for
                    // void_after >= as_of + 5 s, so the status is only judged there.
                    if rec.void_ns_total() >= rec.as_of_ns_total() + GRACE_NS && status != want {
                        v.fail(format!("{}: status {} but the record justifies {}", name, status, want));
                    }
                }
            }
            (c, o) => v.fail(format!("{}: age class {:?} (as_of - mono = {} ns, blur {} ns) but got {:?}", name, c, d, blur, o)),
        }
    };
    judge("ClockErrorBound::now()", eval_struct(rec, real, mono), &mut v);
    v.sub_evals += 1;
    judge("ClockBoundClient::now()", eval_client(en, rec, real, mono), &mut v);
    if case.use_c && en.has_c() {
        v.sub_evals += 1;
        v.label("via-c-library");
        judge("clockbound_now()", eval_c(en, rec, real, mono), &mut v);
    }
    v
}

impl Property for C14 {
    type Case = FailCase;
    const ID: &'static str = "C14";
    fn rule() -> String {
        "cases = record with tv_sec of as_of/void_after in +-2^31 (edges +-2^31, 0, -1), nsec in [0,1e9), bound in [0,2^60), drift over all of u32 (edges 999999998..1000000001, u32::MAX), realtime in +-2^31 s, and as_of - mono drawn from: +-10 ms at ns resolution, +-3000 ns, the exact edges 998..1002 ns, around 1 ms, normal ages up to 2^32 s, breaches up to 2^32 s; through the C library every call is made on one long-lived clockbound_ctx whose previous call failed or succeeded (decided by the case). Oracle: error/ok class from the C14 statement with the blur constant b located by bisection per run (required 1 ns <= b <= 10 ms, same for all cases), half-width/status as C05/C06, exact error kind/errno/detail on all three entry points; every call runs under catch_unwind, half the workers with integer-overflow checks compiled in. Non-trivial: |as_of-mono-b| <= 2 ns, or a timestamp within 2 s of +-2^31, or bound >= 2^59, or drift within 2 of 1e9.".into()
    }
    fn assumptions() -> Vec<String> {
        vec!["the blur is a single constant between 1 ns and 10 ms (the property names no value)".into()]
    }
    fn cases(tier: Tier) -> u64 {
        match tier {
            Tier::Quick => 2_000_000,
            Tier::Thorough => 20_000_000,
        }
    }
    fn strategy(_tier: Tier) -> BoxedStrategy<FailCase> {
        c14_strategy()
    }
    fn check(case: &FailCase, env: &mut Env) -> Verdict {
        check_c14_case(case, env)
    }
    fn from_fuzz_bytes(d: &[u8]) -> Option<FailCase> {
        Some(crate::fuzzdec::decode_fail_case(d))
    }
    fn crash_is_violation() -> bool {
        // 'it never panics, aborts or overflows'
        true
    }
    fn use_checked_build() -> bool {
        true
    }
    fn floors() -> Vec<(&'static str, f64)> {
        vec![
            ("at-blur-edge", 0.01),
            ("extreme-timestamp", 0.05),
            ("expect-causality", 0.1),
            ("expect-malformed", 0.1),
            ("expect-ok-within-blur", 0.03),
            ("expect-ok", 0.2),
        ]
    }
}
