//! C07 (bound formula), C08 (record tracks the chrony history), C09 (no trust before a first
//! measurement), C10 (classification of a report). All run the daemon's real code through the
//! verif wrappers, under the virtual clock.

use crate::clock::VClock;
use crate::daemon::*;
use crate::layout::{Hdr, Rec, HEADER_LEN, SEG_LEN};
use crate::model::*;
use crate::runner::*;
use clock_bound_d::channels::new_channel_web;
use clock_bound_d::thread_manager::Context;
use clock_bound_d::verif as dv;
use clock_bound_d::{ChannelId, ChronyClockStatus, Message};
use clock_bound_shm::ShmReader;
use proptest::prelude::*;
use serde::{Deserialize, Serialize};
use std::cell::RefCell;
use std::ffi::CString;
use std::rc::Rc;

// ------------------------------------------------------------------------------------------------
// generators for wire floats

/// Non-negative value in the meaningful range [0, 2^20 s], every representable float reachable.
pub fn wf_nonneg() -> BoxedStrategy<WireFloat> {
    prop_oneof![
        2 => Just(WireFloat::ZERO),
        1 => (-39i8..=21).prop_map(|e| WireFloat { exp: e, coef: 1 }),            // smallest positive per exponent
        1 => (-39i8..=21).prop_map(|e| WireFloat { exp: e, coef: (1 << 24) - 1 }), // largest per exponent
        1 => (-39i8..=21, 0u32..24).prop_map(|(e, b)| WireFloat { exp: e, coef: 1 << b }), // powers of two
        8 => (-30i8..=6, 0i32..(1 << 24)).prop_map(|(e, c)| WireFloat { exp: e, coef: c }), // ns .. seconds
        1 => (0i32..4096, 0u32..=8).prop_map(|(m, sh)| WireFloat { exp: 16, coef: m << sh }),      // multiples of 2^-9 s: integral ns
        3 => (-39i8..=21, 0i32..(1 << 24)).prop_map(|(e, c)| WireFloat { exp: e, coef: c }),
        2 => (-25i8..=-5, (1i32 << 23)..(1 << 24)).prop_map(|(e, c)| WireFloat { exp: e, coef: c }), // normalised, us..ms
    ]
    .boxed()
}

/// Offset: either sign.
pub fn wf_signed() -> BoxedStrategy<WireFloat> {
    (wf_nonneg(), any::<bool>())
        .prop_map(|(w, neg)| if neg { WireFloat { exp: w.exp, coef: -w.coef } } else { w })
        .boxed()
}

fn wf_interval() -> BoxedStrategy<WireFloat> {
    prop_oneof![
        1 => Just(WireFloat::ZERO),
        1 => Just(WireFloat::pow2(-2)),                                    // 0.25
        2 => Just(WireFloat::pow2(0)),                                     // 1
        2 => Just(WireFloat::pow2(4)),                                     // 16
        1 => Just(WireFloat { exp: 8, coef: 8_506_573 }),                 // 64.9
        1 => Just(WireFloat::pow2(10)),                                    // 1024
        4 => (-10i8..=12, (1i32 << 20)..(1 << 24)).prop_map(|(e, c)| WireFloat { exp: e, coef: c }),
        1 => (-30i8..=40, 0i32..(1 << 24)).prop_map(|(e, c)| WireFloat { exp: e, coef: c }),
    ]
    .boxed()
}

/// 8 * interval in ns as an exact rational (num, den).
fn eight_interval(i: &WireFloat) -> (i128, i128) {
    let sh = i.exp as i32 - 25;
    let base = i.coef as i128 * 8 * 1_000_000_000;
    if sh >= 0 {
        (base << sh, 1)
    } else {
        (base, 1i128 << (-sh))
    }
}

// ------------------------------------------------------------------------------------------------
// C07

pub struct C07;

#[derive(Clone, Debug, Serialize, Deserialize, PartialEq)]
pub struct BoundCase {
    pub report: WireReport,
    /// None: PHC not the reference
    pub phc: Option<i64>,
    pub drift: u32,
    pub as_of_ns: i64,
    /// value the PHC error-bound file held at the previous poll (the same report is polled twice
    /// through the real poller loop, the file changing in between)
    #[serde(default)]
    pub phc_prev: Option<i64>,
}

fn c07_strategy() -> BoxedStrategy<BoundCase> {
    (
        wf_signed(),
        wf_nonneg(),
        wf_nonneg(),
        0u16..3,
        prop_oneof![3 => Just(None), 2 => (0i64..(1 << 50)).prop_map(Some), 1 => Just(Some(0i64)), 1 => (0i64..100_000).prop_map(Some)],
        any::<u32>(),
        0i64..4_000_000_000_000_000_000,
        prop_oneof![2 => Just(None), 1 => (0i64..(1 << 50)).prop_map(Some), 1 => (0i64..1000).prop_map(Some)],
    )
        .prop_map(|(offset, delay, disp, leap, phc, drift, as_of, phc_prev)| BoundCase {
            report: WireReport {
                ref_id: 0x50484330,
                leap,
                ref_time_ns: 1_700_000_000_000_000_000,
                offset,
                delay,
                disp,
                interval: WireFloat::pow2(0),
            },
            phc,
            drift,
            as_of_ns: as_of,
            phc_prev,
        })
        .boxed()
}

/// Judge a derived bound against the exact sum. Returns Err(message) on violation.
pub fn judge_bound(report: &WireReport, bound: i64) -> Result<(), String> {
    let num = exact_bound_num(report); // S = num / 2^66 ns
    let b = bound as i128;
    if b < 0 {
        return Err(format!("derived bound {} ns is negative (offset {} s, dispersion {} s, delay {} s)", bound, report.offset.to_f64(), report.disp.to_f64(), report.delay.to_f64()));
    }
    // lower: b >= S * (1 - 2^-45)   <=>   b * 2^66 >= num - num/2^45
    if (b << 66) < num - (num >> 45) {
        return Err(format!(
            "derived bound {} ns is smaller than |offset| + dispersion + delay/2 = {:.3} ns (offset {} s, dispersion {} s, delay {} s)",
            bound,
            num as f64 / DEN66 as f64,
            report.offset.to_f64(),
            report.disp.to_f64(),
            report.delay.to_f64()
        ));
    }
    // upper: b <= ceil(S * (1 + 2^-45))
    let upper = ceil66(num + (num >> 45) + 1);
    if b > upper {
        return Err(format!(
            "derived bound {} ns is larger than the sum {:.3} ns rounded up (offset {} s, dispersion {} s, delay {} s)",
            bound,
            num as f64 / DEN66 as f64,
            report.offset.to_f64(),
            report.disp.to_f64(),
            report.delay.to_f64()
        ));
    }
    Ok(())
}

fn check_c07_case(case: &BoundCase, env: &mut Env) -> Verdict {
    let mut v = Verdict::default();
    let r = &case.report;
    if r.offset.coef < 0 {
        v.label("negative-offset");
        v.nontrivial = true;
    }
    let num = exact_bound_num(r);
    if num % DEN66 != 0 {
        v.label("fractional-ns-sum");
        v.nontrivial = true;
    } else {
        v.label("integral-ns-sum");
    }
    if r.offset.coef != 0 && r.delay.coef != 0 && r.disp.coef != 0 {
        v.label("all-terms-nonzero");
        v.nontrivial = true;
    }
    if num > 0 && num < DEN66 {
        v.label("sub-nanosecond-sum");
    }
    if case.phc.is_some() {
        v.label("phc");
    }
    // reference time = now, interval 1 s: a synchronised report
    let vc = VClock::new(case.as_of_ns as i128, r.ref_time_ns as i128);
    let _g = vc.install();
    let (bound, status) = dv::extract_bound(tracking_of(r));
    if status != ChronyClockStatus::Synchronized {
        v.fail(format!("fresh report with leap {} classified {:?}", r.leap, status));
    }
    if let Err(m) = judge_bound(r, bound) {
        v.fail(m);
    }
    // through the updater: published bound = derived bound + PHC error bound
    let sink = RecSink::default();
    let mut up = dv::Updater::new(sink.clone(), case.drift);
    up.process_clock_update(tracking_of(r), case.phc.unwrap_or(0), ts(case.as_of_ns as i128));
    v.sub_evals += 1;
    let recs = sink.0.borrow();
    if recs.len() != 1 {
        v.fail(format!("one report produced {} publications", recs.len()));
        return v;
    }
    let want = bound as i128 + case.phc.unwrap_or(0) as i128;
    if recs[0].bound as i128 != want {
        v.fail(format!("published bound {} != derived bound {} + PHC error bound {}", recs[0].bound, bound, case.phc.unwrap_or(0)));
    }
    if recs[0].status != 1 {
        v.fail(format!("published status {} after a synchronised report", recs[0].status));
    }
    drop(recs);
    // the two terms of the published bound belong to the same report: a later unsynchronised answer
    // that arrives with another PHC value (the reference changed, the device's bound moved) leaves
    // the published sum as it is
    {
        let mut t2 = tracking_of(r);
        t2.leap_status = 3;
        let other_phc = case.phc_prev.unwrap_or(0);
        up.process_clock_update(t2, other_phc, ts(case.as_of_ns as i128 + 1_000_000_000));
        v.sub_evals += 1;
        let recs = sink.0.borrow();
        if let Some(last) = recs.last() {
            if recs.len() == 2 && last.bound as i128 != want {
                v.fail(format!(
                    "after an unsynchronised answer that came with a PHC error bound of {}, the published bound is {} instead of the {} (= {} + PHC {}) of the last synchronised report",
                    other_phc,
                    last.bound,
                    want,
                    bound,
                    case.phc.unwrap_or(0)
                ));
            }
        }
    }
    // every synchronised report replaces the bound, also one whose reference time is a little
    // earlier than that of the previous one (clock stepped back, source reselected): fresh is fresh
    {
        let mut r3 = *r;
        r3.ref_time_ns -= 1_000_000_000;
        std::mem::swap(&mut r3.delay, &mut r3.disp);
        let (b3, st3) = dv::extract_bound(tracking_of(&r3));
        if st3 == ChronyClockStatus::Synchronized && judge_bound(&r3, b3).is_ok() {
            let p3 = case.phc.unwrap_or(0);
            up.process_clock_update(tracking_of(&r3), p3, ts(case.as_of_ns as i128 + 2_000_000_000));
            v.sub_evals += 1;
            let recs = sink.0.borrow();
            if let Some(last) = recs.last() {
                if last.bound as i128 != b3 as i128 + p3 as i128 || last.status != 1 {
                    v.fail(format!(
                        "a second synchronised report (reference time 1 s before the first one's, delay and dispersion swapped) was published with bound {} and status {}; its own sum is {} (+ PHC {})",
                        last.bound, last.status, b3, p3
                    ));
                }
            }
        }
    }
    // the PHC term end to end: the same report polled twice through the real poller loop while the
    // PHC error-bound file changes from phc_prev to phc; each published bound must carry the value
    // the file holds at that poll
    if let (Some(v1), Some(v2)) = (case.phc_prev, case.phc) {
        use crate::props::poller::{poll_batch, Answer, BatchStep};
        v.label("phc-file-changes-between-polls");
        v.sub_evals += 2;
        let path = env.fresh_path("c07-phc");
        std::fs::write(&path, format!("{}\n", v1)).unwrap();
        let phc = clock_bound_d::PhcInfo {
            refid: r.ref_id,
            sysfs_error_bound_path: path.clone(),
        };
        let mut poller = dv::Poller::default();
        let p2 = path.clone();
        let steps = vec![
            BatchStep {
                gap_ns: 1_000_000_000,
                latency_ns: 1000,
                answer: Answer::Tracking(*r),
                read_delays: vec![],
                at_start: None,
            },
            BatchStep {
                gap_ns: 1_000_000_000,
                latency_ns: 1000,
                answer: Answer::Tracking(*r),
                read_delays: vec![],
                at_start: Some(Box::new(move || std::fs::write(&p2, format!("{}\n", v2)).unwrap())),
            },
        ];
        let obs = poll_batch(&mut poller, Some(phc), steps, &vc);
        let sink2 = RecSink::default();
        let mut up2 = dv::Updater::new(sink2.clone(), case.drift);
        for (k, o) in obs.iter().enumerate() {
            match &o.message {
                Some(Message::ClockErrorBoundData((t, p, a))) => up2.process_clock_update(*t, *p, *a),
                m => v.fail(format!("poll {} of a report whose reference is the PHC produced {:?}", k, m)),
            }
        }
        let recs2 = sink2.0.borrow();
        for (k, want_phc) in [v1, v2].iter().enumerate() {
            if let Some(rec) = recs2.get(k) {
                if rec.bound as i128 != bound as i128 + *want_phc as i128 {
                    v.fail(format!(
                        "poll {}: the PHC error-bound file holds {} but the published bound {} is the derived bound {} plus {}",
                        k,
                        want_phc,
                        rec.bound,
                        bound,
                        rec.bound as i128 - bound as i128
                    ));
                }
            }
        }
        let _ = std::fs::remove_file(&path);
    }
    v
}

impl Property for C07 {
    type Case = BoundCase;
    const ID: &'static str = "C07";
    fn rule() -> String {
        "cases = tracking replies built at wire level (exponent and coefficient fields of the 32-bit chrony floats drawn separately, whole reply deserialised by chrony-candm): |offset| (random sign), delay, dispersion in [0, 2^20 s] incl. 0, the smallest positive value per exponent down to 2^-64 s, powers of two, normalised us..ms values; PHC error bound absent or in [0,2^50]. Oracle: S = (|offset|+disp+delay/2)*1e9 as an exact integer over 2^66; require 0 <= bound, S(1-2^-45) <= bound <= ceil(S(1+2^-45)), published = bound + PHC, unchanged by a following unsynchronised answer that comes with another PHC value, and replaced by a second synchronised report whose reference time is 1 s earlier; for a quarter of the cases the same report is also polled twice through the real poller loop while the PHC error-bound file changes, and each published bound must carry the value the file holds at that poll. Non-trivial: offset < 0, or S not an integer, or all three terms non-zero.".into()
    }
    fn assumptions() -> Vec<String> {
        vec!["floating-point tolerance 2^-45 relative on the sum; values restricted to exponents -39..21 (2^-64 s .. 2^20 s) so that the result fits i64/f64".into()]
    }
    fn cases(tier: Tier) -> u64 {
        match tier {
            Tier::Quick => 2_000_000,
            Tier::Thorough => 50_000_000,
        }
    }
    fn strategy(_tier: Tier) -> BoxedStrategy<BoundCase> {
        c07_strategy()
    }
    fn check(case: &BoundCase, env: &mut Env) -> Verdict {
        check_c07_case(case, env)
    }
    fn from_fuzz_bytes(d: &[u8]) -> Option<BoundCase> {
        Some(crate::fuzzdec::decode_bound_case(d))
    }
    fn floors() -> Vec<(&'static str, f64)> {
        vec![("negative-offset", 0.4), ("fractional-ns-sum", 0.3), ("integral-ns-sum", 0.003), ("phc", 0.3), ("sub-nanosecond-sum", 0.001), ("phc-file-changes-between-polls", 0.1)]
    }
    fn extra(_tier: Tier, _env: &mut Env, _seed: u64) -> Extra {
        let mut ex = Extra::default();
        if let Err(m) = self_test() {
            ex.failure = Some((m, serde_json::Value::Null));
        }
        ex.evaluations = 1;
        ex
    }
}

// ------------------------------------------------------------------------------------------------
// C10

pub struct C10;

#[derive(Clone, Debug, Serialize, Deserialize, PartialEq)]
pub struct ClassCase {
    pub leap: u16,
    pub interval: WireFloat,
    /// now - ref_time in ns (negative: reference time in the future)
    pub age_ns: i64,
    /// outcomes fed before (drives the FSM to a starting state): 0 none, 1 sync, 2 sync+unsync, 3 sync+unusable,
    /// 4 the very same report delivered once before, at the instant of its reference time,
    /// 5 / 6 sync, then this report, then a poll without reply within (5) / beyond (6) the grace period
    pub prefix: u8,
}

const NOW_NS: i64 = 1_800_000_000_000_000_000;

fn age_for(interval: WireFloat, sel: u8, rnd: u64) -> i64 {
    let (num, den) = eight_interval(&interval);
    let thr = if num > 0 { num / den } else { 0 }; // floor(8I) in ns (clamped at 0)
    let thr = thr.min(1_000_000_000_000_000_000) as i64;
    let floor_s = thr / 1_000_000_000 * 1_000_000_000;
    match sel {
        0 => -1,
        1 => -1_000_000_000,
        2 => 0,
        3 => thr - 1,
        4 => thr,
        5 => thr + 1,
        6 => floor_s - 1,
        7 => floor_s,
        8 => floor_s + 1,
        9 => thr - 1_000_000_000,
        10 => thr - 1_000_000_001,
        11 => (rnd % (2 * thr.max(1) as u64 + 2_000_000_000)) as i64,
        12 => (rnd % 1_000_000_000_000_000) as i64,
        _ => -((rnd % 1_000_000_000_000) as i64) - 1,
    }
    .clamp(-1_000_000_000_000_000, NOW_NS - 1)
}

fn c10_strategy() -> BoxedStrategy<ClassCase> {
    (
        prop_oneof![6 => 0u16..3, 3 => Just(3u16), 2 => 4u16..8, 3 => any::<u16>()],
        wf_interval(),
        0u8..14,
        any::<u64>(),
        0u8..7,
    )
        .prop_map(|(leap, interval, sel, rnd, prefix)| ClassCase {
            leap,
            interval,
            age_ns: age_for(interval, sel, rnd),
            prefix,
        })
        .boxed()
}

fn class_of(s: ChronyClockStatus) -> Class {
    match s {
        ChronyClockStatus::Unknown => Class::Unknown,
        ChronyClockStatus::Synchronized => Class::Synchronized,
        ChronyClockStatus::FreeRunning => Class::FreeRunning,
    }
}

/// Admissible classes for a report (see DESIGN.md C10: within one second below 8 intervals the
/// whole-second resolution of the threshold is tolerated).
pub fn admissible_classes(leap: u16, interval: &WireFloat, age_ns: i128) -> Vec<Class> {
    let (num, den) = eight_interval(interval);
    let strict = classify_report(leap, age_ns, num, den);
    if strict == Class::Synchronized {
        // age <= 8I. Required Synchronized when age <= 8I - 1 s, either class in (8I - 1 s, 8I].
        if (age_ns + 1_000_000_000) * den <= num {
            vec![Class::Synchronized]
        } else {
            vec![Class::Synchronized, Class::FreeRunning]
        }
    } else {
        vec![strict]
    }
}

fn fresh_sync_report() -> WireReport {
    WireReport {
        ref_id: 1,
        leap: 0,
        ref_time_ns: NOW_NS,
        offset: WireFloat { exp: -9, coef: 4_000_000 },
        delay: WireFloat { exp: -8, coef: 5_000_000 },
        disp: WireFloat { exp: -10, coef: 6_000_000 },
        interval: WireFloat::pow2(4),
    }
}

fn check_c10_case(case: &ClassCase, _env: &mut Env) -> Verdict {
    let mut v = Verdict::default();
    let age = case.age_ns as i128;
    let (num, den) = eight_interval(&case.interval);
    if case.leap > 2 {
        v.label("leap-not-sync");
        v.nontrivial = true;
    }
    if case.leap > 3 {
        v.label("leap-invalid");
    }
    let thr_dist = age * den - num; // sign tells the side of the threshold
    if thr_dist.abs() <= den {
        v.label("at-8-interval-threshold");
        v.nontrivial = true;
    }
    if age.abs() <= 1 {
        v.label("at-now");
        v.nontrivial = true;
    }
    if age < 0 {
        v.label("future-ref-time");
    }
    if num % (den * 1_000_000_000) != 0 {
        v.label("fractional-8I");
    }
    let report = WireReport {
        ref_id: 7,
        leap: case.leap,
        ref_time_ns: NOW_NS - case.age_ns,
        offset: WireFloat { exp: -9, coef: -4_000_000 },
        delay: WireFloat { exp: -8, coef: 5_000_000 },
        disp: WireFloat { exp: -10, coef: 6_000_000 },
        interval: case.interval,
    };
    let vc = VClock::new(5_000_000_000_000, NOW_NS as i128);
    let _g = vc.install();
    let allowed = admissible_classes(case.leap, &case.interval, age);
    let (_b, st) = dv::extract_bound(tracking_of(&report));
    let got = class_of(st);
    if !allowed.contains(&got) {
        v.fail(format!(
            "report with leap {}, reference time {} ns old, update interval {} s classified {:?}; the statement allows {:?}",
            case.leap,
            case.age_ns,
            case.interval.to_f64(),
            got,
            allowed
        ));
    }
    // through the updater from a chosen FSM state: the published status is that class once a
    // synchronised report has been seen
    let sink = RecSink::default();
    let mut up = dv::Updater::new(sink.clone(), 1000);
    let mut seen_sync = false;
    if case.prefix >= 1 && case.prefix <= 3 {
        up.process_clock_update(tracking_of(&fresh_sync_report()), 0, ts(1_000_000_000));
        seen_sync = true;
    }
    if case.prefix == 4 && case.age_ns >= 0 {
        // chronyd gives the bit-identical report twice: first when it is brand new ...
        v.label("same-report-seen-before");
        vc.set(5_000_000_000_000 - case.age_ns as i128, (NOW_NS - case.age_ns) as i128);
        up.process_clock_update(tracking_of(&report), 0, ts(1_000_000_000));
        seen_sync = case.leap <= 2;
        // ... and again now
        vc.set(5_000_000_000_000, NOW_NS as i128);
    }
    if case.prefix == 5 || case.prefix == 6 {
        // the report is classified, chronyd then misses a poll, then delivers the same report
        // again (the virtual clock does not move): its class is the same, and so must be the status
        v.label("same-class-after-a-missed-poll");
        up.process_clock_update(tracking_of(&fresh_sync_report()), 0, ts(1_000_000_000));
        seen_sync = true;
        up.process_clock_update(tracking_of(&report), 0, ts(2_000_000_000));
        up.process_missing_clock_update(case.prefix == 5);
    }
    if case.prefix == 2 {
        let mut r = fresh_sync_report();
        r.leap = 3;
        up.process_clock_update(tracking_of(&r), 0, ts(2_000_000_000));
    }
    if case.prefix == 3 {
        let mut r = fresh_sync_report();
        r.leap = 9;
        up.process_clock_update(tracking_of(&r), 0, ts(2_000_000_000));
    }
    up.process_clock_update(tracking_of(&report), 0, ts(3_000_000_000));
    v.sub_evals += 1;
    let recs = sink.0.borrow();
    let last = recs.last().copied().unwrap_or_default();
    let got_pub = last.status;
    if seen_sync || got == Class::Synchronized {
        if !allowed.iter().any(|c| c.as_status() == got_pub) {
            v.fail(format!("published status {} after a report whose admissible classes are {:?} (leap {}, age {} ns, interval {} s)", got_pub, allowed, case.leap, case.age_ns, case.interval.to_f64()));
        }
    }
    v
}

impl Property for C10 {
    type Case = ClassCase;
    const ID: &'static str = "C10";
    fn rule() -> String {
        "generated: leap status (biased to 0..7 plus uniform u16) x update interval as a wire float (0, 0.25, 1, 16, 64.9, 1024, random non-negative; negative intervals are outside the domain: an interval is a duration) x reference-time age placed at: future by 1 ns / 1 s, 0, 8I-1ns, 8I, 8I+1ns, floor(8I s)+-1ns, 8I-1s, random x history before the report (none; sync; sync+unsync; sync+unusable; the same report once before at its reference time; sync + the same report + a missed poll within / beyond the grace period). Enumerated (exhaustive): all 65536 leap values x 12 (interval, age) combinations. Oracle: classification table of the C10 statement in exact rational arithmetic; in the band (8I-1 s, 8I] Synchronized or FreeRunning are both accepted (whole-second threshold resolution). Non-trivial: age within one unit of a threshold, or leap > 2.".into()
    }
    fn assumptions() -> Vec<String> {
        vec!["a synchronised-leap report whose age is within one second below 8 intervals may be classified either way".into()]
    }
    fn cases(tier: Tier) -> u64 {
        match tier {
            Tier::Quick => 1_000_000,
            Tier::Thorough => 30_000_000,
        }
    }
    fn strategy(_tier: Tier) -> BoxedStrategy<ClassCase> {
        c10_strategy()
    }
    fn check(case: &ClassCase, env: &mut Env) -> Verdict {
        check_c10_case(case, env)
    }
    fn from_fuzz_bytes(d: &[u8]) -> Option<ClassCase> {
        Some(crate::fuzzdec::decode_class_case(d))
    }
    fn floors() -> Vec<(&'static str, f64)> {
        vec![("at-8-interval-threshold", 0.1), ("future-ref-time", 0.1), ("leap-invalid", 0.1), ("fractional-8I", 0.2)]
    }
    fn extra(_tier: Tier, env: &mut Env, _seed: u64) -> Extra {
        let mut ex = Extra::default();
        let combos: [(WireFloat, u8); 12] = [
            (WireFloat::pow2(4), 2),
            (WireFloat::pow2(4), 4),
            (WireFloat::pow2(4), 5),
            (WireFloat::pow2(4), 0),
            (WireFloat::pow2(0), 3),
            (WireFloat::pow2(0), 5),
            (WireFloat { exp: 8, coef: 8_506_573 }, 10),
            (WireFloat { exp: 8, coef: 8_506_573 }, 5),
            (WireFloat::ZERO, 2),
            (WireFloat::ZERO, 5),
            (WireFloat::pow2(10), 1),
            (WireFloat::pow2(-2), 5),
        ];
        for leap in 0..=u16::MAX {
            for (k, (iv, sel)) in combos.iter().enumerate() {
                let case = ClassCase {
                    leap,
                    interval: *iv,
                    age_ns: age_for(*iv, *sel, 0),
                    prefix: ((k as u32 + leap as u32) % 7) as u8,
                };
                let vd = check_c10_case(&case, env);
                ex.evaluations += 1 + vd.sub_evals;
                if vd.nontrivial {
                    ex.nontrivial_hashes.push(hash_str(&serde_json::to_string(&case).unwrap()));
                }
                if leap == 3 && k == 0 {
                    ex.samples.push(serde_json::json!({"enumerated_case": case}));
                }
                if let Some(m) = vd.fail {
                    if ex.failure.is_none() {
                        ex.failure = Some((m, serde_json::to_value(&case).unwrap()));
                    }
                }
            }
        }
        ex.label("enumerated-leap-values-65536");
        ex.exhaustive_note = Some("leap status: all 65536 values x 12 (interval, age) combinations x 7 histories before the report (rotating)".into());
        ex
    }
}

// ------------------------------------------------------------------------------------------------
// C08 / C09: histories of poll outcomes

#[derive(Clone, Debug, Serialize, Deserialize, PartialEq)]
pub enum Outcome {
    /// synchronised-valid report
    Sync { offset: WireFloat, delay: WireFloat, disp: WireFloat, leap: u16, interval_log2: i8, age_frac: u16, phc: Option<i64> },
    /// leap 3
    Unsync,
    /// synchronised leap, reference time older than 8 intervals (by extra_ns > 0)
    Stale { extra_ns: i64 },
    /// leap > 3, or reference time in the future
    Unusable { leap: u16, future: bool },
    NoReply { grace: bool },
    PhcFail { grace: bool },
    /// a message that is not a poll outcome (must not publish)
    Other { k: u8 },
    /// chronyd answers with the bit-identical report it gave last time (same reference time): its
    /// class follows from its age *now*
    Repeat,
}

#[derive(Clone, Debug, Serialize, Deserialize, PartialEq)]
pub struct Step {
    /// virtual time elapsed since the previous step, ns
    pub gap_ns: i64,
    pub outcome: Outcome,
}

#[derive(Clone, Debug, Serialize, Deserialize, PartialEq)]
pub struct HistCase {
    pub drift: u32,
    /// monotonic clock at daemon start, ns (machine uptime)
    pub uptime_ns: i64,
    /// a valid segment from a previous daemon life exists
    pub preexisting: bool,
    pub steps: Vec<Step>,
    /// client calls: (after step index, delay after that publication in ns)
    pub clients: Vec<(u16, i64)>,
}

fn outcome_class(o: &Outcome) -> Option<Class> {
    Some(match o {
        Outcome::Sync { .. } => Class::Synchronized,
        Outcome::Unsync | Outcome::Stale { .. } => Class::FreeRunning,
        Outcome::Unusable { .. } => Class::Unknown,
        Outcome::NoReply { grace } | Outcome::PhcFail { grace } => {
            if *grace {
                Class::FreeRunning
            } else {
                Class::Unknown
            }
        }
        Outcome::Other { .. } => return None,
        // resolved from the repeated report's age by the caller (see repeat_classes)
        Outcome::Repeat => Class::FreeRunning,
    })
}

/// Classes admissible for a report repeated at `real_now`.
fn repeat_classes(r: &WireReport, real_now: i128) -> Vec<Class> {
    admissible_classes(r.leap, &r.interval, real_now - r.ref_time_ns as i128)
}

fn sync_outcome() -> BoxedStrategy<Outcome> {
    (wf_signed(), wf_nonneg(), wf_nonneg(), 0u16..3, -2i8..=10, any::<u16>(), prop_oneof![3 => Just(None), 1 => (0i64..1_000_000).prop_map(Some)])
        .prop_map(|(offset, delay, disp, leap, interval_log2, age_frac, phc)| Outcome::Sync {
            offset,
            delay,
            disp,
            leap,
            interval_log2,
            age_frac,
            phc,
        })
        .boxed()
}

fn nonsync_outcome(with_repeat: bool) -> BoxedStrategy<Outcome> {
    prop_oneof![
        3 => Just(Outcome::Unsync),
        2 => (1i64..10_000_000_000).prop_map(|e| Outcome::Stale { extra_ns: e }),
        2 => (prop_oneof![4u16..10, any::<u16>().prop_map(|x| x.max(4))], any::<bool>()).prop_map(|(leap, future)| Outcome::Unusable { leap, future }),
        1 => (0u16..4).prop_map(|leap| Outcome::Unusable { leap, future: true }),
        3 => any::<bool>().prop_map(|grace| Outcome::NoReply { grace }),
        2 => any::<bool>().prop_map(|grace| Outcome::PhcFail { grace }),
        1 => any::<u8>().prop_map(|k| Outcome::Other { k }),
        2 => if with_repeat { Just(Outcome::Repeat).boxed() } else { Just(Outcome::Unsync).boxed() },
    ]
    .boxed()
}

fn gap_strategy() -> BoxedStrategy<i64> {
    prop_oneof![
        4 => Just(1_000_000_000i64),
        2 => 1i64..2_000_000_000,
        1 => Just(1i64),
        1 => 1i64..20_000_000_000,
        1 => 1i64..1_500_000_000_000,
    ]
    .boxed()
}

fn c08_strategy() -> BoxedStrategy<HistCase> {
    let step = (gap_strategy(), prop_oneof![5 => sync_outcome(), 6 => nonsync_outcome(true)]).prop_map(|(gap_ns, outcome)| Step { gap_ns, outcome });
    (
        prop_oneof![Just(1000u32), Just(50_000u32), any::<u32>()],
        0i64..3_000_000_000_000,
        any::<bool>(),
        prop::collection::vec(step, 0..40),
    )
        .prop_map(|(drift, uptime_ns, preexisting, steps)| HistCase {
            drift,
            uptime_ns,
            preexisting,
            steps,
            clients: vec![],
        })
        .boxed()
}

fn c09_strategy() -> BoxedStrategy<HistCase> {
    let ns_step = (gap_strategy(), nonsync_outcome(false)).prop_map(|(gap_ns, outcome)| Step { gap_ns, outcome });
    let any_step = (gap_strategy(), prop_oneof![1 => sync_outcome(), 2 => nonsync_outcome(false)]).prop_map(|(gap_ns, outcome)| Step { gap_ns, outcome });
    (
        prop_oneof![Just(1000u32), Just(50_000u32), 0u32..1_000_000_000],
        prop_oneof![7 => 0i64..1_000_000_000_000, 3 => 0i64..100_000_000_000_000],
        any::<bool>(),
        prop::collection::vec(ns_step, 1..30),
        prop::collection::vec(any_step, 0..6),
        prop::collection::vec((any::<u16>(), prop_oneof![Just(0i64), 0i64..6_000_000_000, 0i64..1_200_000_000_000]), 1..6),
    )
        .prop_map(|(drift, uptime_ns, preexisting, mut steps, tail, clients)| {
            steps.extend(tail);
            HistCase {
                drift,
                uptime_ns,
                preexisting,
                steps,
                clients,
            }
        })
        .boxed()
}

/// Everything observed while the real message loop processed a history.
pub struct HistRun {
    /// per publication: (step index it belongs to, record handed to the sink, record read back via
    /// ShmReader, record decoded from the raw file bytes, generation in the file)
    pub pubs: Vec<(usize, Rec, Rec, Rec, u16)>,
    /// client observations: (after step, mono_ns of the call, result, record at that time)
    pub client_obs: Vec<(usize, i128, NowOut, Rec)>,
    /// expected bound for each Sync step (exact-arithmetic check done separately)
    pub failures: Vec<String>,
    pub start_generation: u16,
}

struct LoopState {
    // step index of each publishing message in processing order
    publishing_steps: Vec<usize>,
    // virtual time at which each publishing message is processed
    times: Vec<(i128, i128)>, // (mono, real) for the *next* message, indexed like publishing_steps
    pubs: Vec<(usize, Rec, Rec, Rec, u16)>,
    client_obs: Vec<(usize, i128, NowOut, Rec)>,
    failures: Vec<String>,
}

const REAL_BASE: i128 = 1_750_000_000_000_000_000;

/// Build the message for a step processed at (mono, real).
fn message_for(o: &Outcome, mono: i128, real: i128, last: Option<&WireReport>) -> (Message, Option<WireReport>) {
    let mk = |leap: u16, ref_age: i128, interval: WireFloat, offset: WireFloat, delay: WireFloat, disp: WireFloat| WireReport {
        ref_id: 0x50484330,
        leap,
        ref_time_ns: (real - ref_age) as i64,
        offset,
        delay,
        disp,
        interval,
    };
    let dflt = (WireFloat { exp: -9, coef: -3_000_000 }, WireFloat { exp: -8, coef: 5_000_000 }, WireFloat { exp: -10, coef: 6_000_000 });
    match o {
        Outcome::Sync { offset, delay, disp, leap, interval_log2, age_frac, phc } => {
            let interval = WireFloat::pow2(*interval_log2); // 2^interval_log2 s
            let (num, den) = eight_interval(&interval);
            // age in [0, 8I - 1 s] (clamped at 0): unambiguously synchronised
            let max_age = (num / den - 1_000_000_000).max(0);
            let age = max_age * (*age_frac as i128) / 65535;
            let r = mk(*leap, age, interval, *offset, *delay, *disp);
            (msg_data(&r, phc.unwrap_or(0), mono), Some(r))
        }
        Outcome::Unsync => {
            let r = mk(3, 1_000_000_000, WireFloat::pow2(4), dflt.0, dflt.1, dflt.2);
            (msg_data(&r, 0, mono), Some(r))
        }
        Outcome::Stale { extra_ns } => {
            let interval = WireFloat::pow2(4); // 16 s -> threshold 128 s
            let r = mk(1, 128_000_000_000 + *extra_ns as i128, interval, dflt.0, dflt.1, dflt.2);
            (msg_data(&r, 0, mono), Some(r))
        }
        Outcome::Unusable { leap, future } => {
            let age = if *future { -1_000_000 } else { 1_000_000_000 };
            let l = if *future { *leap } else { (*leap).max(4) };
            let r = mk(l, age, WireFloat::pow2(4), dflt.0, dflt.1, dflt.2);
            (msg_data(&r, 0, mono), Some(r))
        }
        Outcome::NoReply { grace: true } => (Message::ChronyNotRespondingGracePeriod, None),
        Outcome::NoReply { grace: false } => (Message::ChronyNotResponding, None),
        Outcome::PhcFail { grace: true } => (Message::PhcErrorBoundRetrievalFailedGracePeriod, None),
        Outcome::PhcFail { grace: false } => (Message::PhcErrorBoundRetrievalFailed, None),
        Outcome::Other { k } => (other_message(*k), None),
        Outcome::Repeat => match last {
            Some(r) => (msg_data(r, 0, mono), Some(*r)),
            None => {
                let r = mk(3, 1_000_000_000, WireFloat::pow2(4), dflt.0, dflt.1, dflt.2);
                (msg_data(&r, 0, mono), Some(r))
            }
        },
    }
}

/// Run one daemon life over the history with the real message loop and a real ShmWriter on a
/// tmpfs file; after every publication read the file back.
pub fn run_history(case: &HistCase, env: &mut Env) -> Result<HistRun, String> {
    let path = env.fresh_path("hist-seg");
    let cpath = CString::new(path.to_str().unwrap()).unwrap();
    if case.preexisting {
        // a valid segment left by a previous life: Synchronized record with a measured bound
        let old = Rec {
            as_of_s: (case.uptime_ns / 1_000_000_000 - 3).max(0),
            as_of_ns: 0,
            void_s: (case.uptime_ns / 1_000_000_000 - 3).max(0) + 1000,
            void_ns: 0,
            bound: 123_456,
            drift: case.drift,
            reserved: 0,
            status: 1,
        };
        std::fs::write(&path, crate::layout::segment_bytes(&Hdr::valid(40), &old)).map_err(|e| e.to_string())?;
    }
    let writer = crate::shmutil::new_writer(&path).map_err(|e| format!("ShmWriter::new failed: {}", e))?;
    let start_generation = crate::layout::read_generation(&path).unwrap_or(0);

    // schedule: time at which each step's message is processed
    let mut t = case.uptime_ns as i128;
    let mut sched: Vec<(usize, i128)> = vec![];
    for (i, s) in case.steps.iter().enumerate() {
        t += s.gap_ns as i128;
        sched.push((i, t));
    }
    let vc = VClock::new(case.uptime_ns as i128, REAL_BASE + case.uptime_ns as i128);
    let _g = vc.install();

    let (mut mboxes, dbox) = new_channel_web(vec![ChannelId::ClockErrorBoundPoller, ChannelId::ShmWriter, ChannelId::MainThread]);
    let mbox = mboxes.get_mailbox(&ChannelId::ShmWriter).unwrap();
    let _main_mbox = mboxes.get_mailbox(&ChannelId::MainThread).unwrap();
    let ctx = Context {
        mbox,
        dbox: dbox.clone(),
        channel_id: ChannelId::ShmWriter,
    };

    let st = Rc::new(RefCell::new(LoopState {
        publishing_steps: vec![],
        times: vec![],
        pubs: vec![],
        client_obs: vec![],
        failures: vec![],
    }));
    // Messages are all queued up front (as a burst of polls); the virtual clock is advanced by the
    // sink callback so that each message is processed at its scheduled instant.
    let mut first_time: Option<i128> = None;
    let mut last_report: Option<WireReport> = None;
    for (i, tm) in &sched {
        let (msg, r) = message_for(&case.steps[*i].outcome, *tm, REAL_BASE + *tm, last_report.as_ref());
        if r.is_some() {
            last_report = r;
        }
        if outcome_class(&case.steps[*i].outcome).is_some() {
            st.borrow_mut().publishing_steps.push(*i);
            st.borrow_mut().times.push((*tm, REAL_BASE + *tm));
            if first_time.is_none() {
                first_time = Some(*tm);
            }
        }
        dbox.send(&ChannelId::ShmWriter, msg).map_err(|_| "send failed".to_string())?;
    }
    dbox.send(&ChannelId::ShmWriter, Message::ThreadAbort).map_err(|_| "send failed".to_string())?;
    if let Some(tm) = first_time {
        vc.set(tm, REAL_BASE + tm);
    }

    let mut reader: Option<ShmReader> = None;
    let mut client: Option<clock_bound_client::ClockBoundClient> = None;
    let st2 = st.clone();
    let vc2 = vc.clone();
    let path2 = path.clone();
    let clients = case.clients.clone();
    let nsteps = case.steps.len();
    let after = Box::new(move |k: usize, handed: Rec| {
        let mut s = st2.borrow_mut();
        let step = s.publishing_steps.get(k).copied().unwrap_or(usize::MAX);
        // read back through a persistent ShmReader (opened after the first publication)
        if reader.is_none() {
            match ShmReader::new(&cpath) {
                Ok(r) => reader = Some(r),
                Err(e) => s.failures.push(format!("ShmReader::new after publication {} failed: {:?}", k, e)),
            }
        }
        let via_reader = match reader.as_mut().map(|r| r.snapshot().map(Rec::from_ceb)) {
            Some(Ok(r)) => r,
            Some(Err(e)) => {
                s.failures.push(format!("snapshot after publication {} failed: {:?}", k, e));
                Rec::default()
            }
            None => Rec::default(),
        };
        let raw = std::fs::read(&path2).unwrap_or_default();
        let (via_raw, gen) = if raw.len() >= SEG_LEN {
            (Rec::decode(&raw[HEADER_LEN..SEG_LEN]), Hdr::decode(&raw[..HEADER_LEN]).generation)
        } else {
            s.failures.push(format!("file has {} bytes after publication {}", raw.len(), k));
            (Rec::default(), 0)
        };
        s.pubs.push((step, handed, via_reader, via_raw, gen));
        // client calls scheduled after this step
        let (mono_now, _) = s.times.get(k).copied().unwrap_or((vc2.mono(), vc2.real()));
        for (after_step, delay) in &clients {
            let target = if nsteps == 0 { 0 } else { (*after_step as usize) % nsteps };
            if target == step {
                if client.is_none() {
                    client = clock_bound_client::ClockBoundClient::new_with_path(path2.to_str().unwrap()).ok();
                }
                if let Some(c) = client.as_mut() {
                    let m = mono_now + *delay as i128;
                    vc2.set(m, REAL_BASE + m);
                    let out = match c.now() {
                        Ok(r) => NowOut::Ok {
                            earliest_ns: crate::clock::timespec_to_ns(r.earliest.as_ref()),
                            latest_ns: crate::clock::timespec_to_ns(r.latest.as_ref()),
                            status: crate::layout::status_to_i32(r.clock_status),
                        },
                        Err(e) => crate::props::client::client_err_to_out(e),
                    };
                    s.client_obs.push((step, m, out, handed));
                }
            }
        }
        // move the clock to the instant of the next publishing message
        if let Some((m, r)) = s.times.get(k + 1).copied() {
            vc2.set(m, r);
        }
    });
    let sink = HookSink {
        inner: writer,
        count: 0,
        after,
    };
    let updater = dv::Updater::new(sink, case.drift);
    dv::run_process_messages(ctx, updater);
    let _ = std::fs::remove_file(&path);
    let s = Rc::try_unwrap(st).map_err(|_| "loop state still shared".to_string())?.into_inner();
    Ok(HistRun {
        pubs: s.pubs,
        client_obs: s.client_obs,
        failures: s.failures,
        start_generation,
    })
}

pub struct C08;

fn check_c08_case(case: &HistCase, env: &mut Env) -> Verdict {
    let mut v = Verdict::default();
    let classes: Vec<Option<Class>> = case.steps.iter().map(|s| outcome_class(&s.outcome)).collect();
    let mut distinct = std::collections::HashSet::new();
    let mut pattern = 0; // Sync, then >=1 non-sync, then Sync
    for (c, s) in classes.iter().zip(&case.steps) {
        if let Some(c) = c {
            distinct.insert(std::mem::discriminant(&s.outcome));
            pattern = match (pattern, *c == Class::Synchronized) {
                (0, true) => 1,
                (1, false) => 2,
                (2, true) => 3,
                (p, _) => p,
            };
        }
    }
    if pattern == 3 {
        v.label("sync-loss-resync");
        v.nontrivial = true;
    }
    if distinct.len() >= 3 {
        v.label("three-outcome-kinds");
        v.nontrivial = true;
    }
    if case.steps.iter().any(|s| matches!(s.outcome, Outcome::Other { .. })) {
        v.label("non-poll-message");
    }
    if case.preexisting {
        v.label("preexisting-segment");
    }
    if case.steps.iter().any(|s| matches!(s.outcome, Outcome::Sync { phc: Some(_), .. })) {
        v.label("phc-bound");
    }
    let run = match run_history(case, env) {
        Ok(r) => r,
        Err(m) => {
            v.fail(m);
            return v;
        }
    };
    for m in &run.failures {
        v.fail(m.clone());
    }
    let expected_pubs = classes.iter().filter(|c| c.is_some()).count();
    if run.pubs.len() != expected_pubs {
        v.fail(format!("{} poll outcomes produced {} publications", expected_pubs, run.pubs.len()));
        return v;
    }
    // model
    let mut t = case.uptime_ns as i128;
    let mut model_as_of: i128 = 0;
    let mut model_bound_report: Option<(WireReport, i64)> = None;
    let mut seen_sync = false;
    let mut k = 0usize;
    let mut gen = run.start_generation;
    let mut model_last_report: Option<WireReport> = None;
    for (i, s) in case.steps.iter().enumerate() {
        t += s.gap_ns as i128;
        let Some(class) = classes[i] else { continue };
        let (_msg, report) = message_for(&s.outcome, t, REAL_BASE + t, model_last_report.as_ref());
        if report.is_some() {
            model_last_report = report;
        }
        // a repeated report is classified by its age now; inside the one-second band below eight
        // intervals both classes are admissible and the history is not judged any further
        let class = if matches!(s.outcome, Outcome::Repeat) {
            v.label("repeated-report");
            let adm = repeat_classes(report.as_ref().unwrap(), REAL_BASE + t);
            if adm.len() != 1 {
                v.label("repeated-report-in-tolerance-band");
                break;
            }
            if adm[0] != Class::FreeRunning {
                v.label("repeated-report-changed-class");
            }
            adm[0]
        } else {
            class
        };
        if class == Class::Synchronized {
            seen_sync = true;
            model_as_of = t;
            let phc = if let Outcome::Sync { phc, .. } = &s.outcome { phc.unwrap_or(0) } else { 0 };
            model_bound_report = Some((report.unwrap(), phc));
        }
        let (step, handed, via_reader, via_raw, file_gen) = run.pubs[k];
        v.sub_evals += 1;
        if step != i {
            v.fail(format!("publication {} attributed to step {} instead of {}", k, step, i));
        }
        if handed != via_reader || handed != via_raw {
            v.fail(format!("after outcome {}: record handed to the writer {:?}, via ShmReader {:?}, via PROTOCOL.md offsets {:?}", i, handed, via_reader, via_raw));
        }
        // exactly one publication per outcome: generation advanced by 2 (skipping 0)
        let mut want_gen = if gen & 1 == 1 { gen.wrapping_add(1) } else { gen.wrapping_add(2) };
        if want_gen == 0 {
            want_gen = 2;
        }
        if file_gen != want_gen {
            v.fail(format!("after outcome {}: generation {} (previous {}), expected {}", i, file_gen, gen, want_gen));
        }
        gen = file_gen;
        let rec = handed;
        if rec.as_of_ns_total() != model_as_of {
            v.fail(format!("after outcome {} ({:?}): as_of {} but the most recent synchronised report was taken at {}", i, class, rec.as_of_ns_total(), model_as_of));
        }
        match &model_bound_report {
            None => {
                if rec.bound != 0 {
                    v.fail(format!("after outcome {}: bound {} although no synchronised report was seen", i, rec.bound));
                }
            }
            Some((r, phc)) => {
                if let Err(m) = judge_bound(r, rec.bound.wrapping_sub(*phc)) {
                    v.fail(format!("after outcome {} ({:?}): bound is not that of the most recent synchronised report (+PHC {}): {}", i, class, phc, m));
                }
            }
        }
        if rec.void_s as i128 != model_as_of.div_euclid(NS) + 1000 || rec.void_ns != 0 {
            v.fail(format!("after outcome {}: void_after ({}, {}) is not as_of.sec + 1000 = {}", i, rec.void_s, rec.void_ns, model_as_of.div_euclid(NS) + 1000));
        }
        if rec.drift != case.drift {
            v.fail(format!("after outcome {}: drift {} != configured {}", i, rec.drift, case.drift));
        }
        if seen_sync && rec.status != class.as_status() {
            v.fail(format!("after outcome {} ({:?} -> {:?}): published status {}", i, s.outcome, class, rec.status));
        }
        k += 1;
    }
    v
}

impl Property for C08 {
    type Case = HistCase;
    const ID: &'static str = "C08";
    fn rule() -> String {
        "cases = histories (0..40 steps, gaps 1 ns..1500 s) of poll outcomes from a fresh daemon: Sync (wire-level report, leap 0..2, interval 2^-2..2^10 s, reference-time age in [0, 8I-1s], optional PHC bound), Unsync (leap 3), Stale (age > 8I), Unusable (leap > 3 or future reference time), NoReply/PhcFail within or beyond grace, Repeat (chronyd repeats its previous report bit for bit: the class follows from its age now), and non-poll messages; random drift setting; optionally a pre-existing valid segment. The real process_messages loop consumes them over a real mpsc mailbox into a real ShmWriter on tmpfs; after every publication the record is read back through ShmReader and through PROTOCOL.md offsets. Oracle: reference updater model (as_of/bound of the latest Sync outcome, void_after = as_of.sec+1000, drift, status = class of latest outcome once a Sync was seen, exactly one publication per outcome). Non-trivial: history contains Sync, then >= 1 non-Sync, then Sync; or >= 3 distinct outcome kinds.".into()
    }
    fn cases(tier: Tier) -> u64 {
        match tier {
            Tier::Quick => 400_000,
            Tier::Thorough => 8_000_000,
        }
    }
    fn strategy(_tier: Tier) -> BoxedStrategy<HistCase> {
        c08_strategy()
    }
    fn check(case: &HistCase, env: &mut Env) -> Verdict {
        check_c08_case(case, env)
    }
    fn floors() -> Vec<(&'static str, f64)> {
        vec![("sync-loss-resync", 0.3), ("three-outcome-kinds", 0.5), ("non-poll-message", 0.1), ("phc-bound", 0.1)]
    }
    fn max_shrink_iters(_t: Tier) -> u32 {
        2000
    }
}

pub struct C09;

fn check_c09_case(case: &HistCase, env: &mut Env) -> Verdict {
    let mut v = Verdict::default();
    let classes: Vec<Option<Class>> = case.steps.iter().map(|s| outcome_class(&s.outcome)).collect();
    let first_sync = classes.iter().position(|c| *c == Some(Class::Synchronized)).unwrap_or(usize::MAX);
    let fr_before = classes.iter().enumerate().any(|(i, c)| i < first_sync && *c == Some(Class::FreeRunning));
    if fr_before {
        v.label("freerunning-class-before-first-sync");
    }
    if case.uptime_ns < 1_000_000_000_000 {
        v.label("uptime-below-1000s");
    }
    if case.preexisting {
        v.label("preexisting-segment");
    }
    if first_sync != usize::MAX {
        v.label("has-later-sync");
    }
    let run = match run_history(case, env) {
        Ok(r) => r,
        Err(m) => {
            v.fail(m);
            return v;
        }
    };
    for m in &run.failures {
        v.fail(m.clone());
    }
    for (step, handed, _via_reader, via_raw, _gen) in &run.pubs {
        v.sub_evals += 1;
        if *step < first_sync {
            if via_raw.status != 0 || handed.status != 0 {
                v.fail(format!(
                    "record published after outcome {} ({:?}) has status {} (bound {}, as_of {}) although no synchronised report has been seen since the daemon started",
                    step,
                    case.steps[*step].outcome,
                    via_raw.status,
                    via_raw.bound,
                    via_raw.as_of_ns_total()
                ));
            }
        }
    }
    // the updater driving the real segment writer itself (no recording wrapper in between), over a
    // segment left by a previous run - a measured Synchronized record, or the place-holder of a run
    // that never synchronised: what a previous run left behind is not a measurement of this run
    if case.preexisting {
        for (k, old) in [
            Rec { as_of_s: 7, as_of_ns: 0, void_s: 1007, void_ns: 0, bound: 123_456, drift: case.drift, reserved: 0, status: 1 },
            Rec { as_of_s: 0, as_of_ns: 0, void_s: 1000, void_ns: 0, bound: 0, drift: case.drift, reserved: 0, status: 0 },
        ]
        .iter()
        .enumerate()
        {
            let path = env.fresh_path("c09-direct");
            let _ = std::fs::remove_file(&path);
            if std::fs::write(&path, crate::layout::segment_bytes(&Hdr::valid(40), old)).is_err() {
                continue;
            }
            if let Ok(writer) = crate::shmutil::new_writer(&path) {
                let mut up = dv::Updater::new(writer, case.drift);
                up.process_missing_clock_update(true);
                v.sub_evals += 1;
                let bytes = std::fs::read(&path).unwrap_or_default();
                if bytes.len() >= crate::layout::SEG_LEN {
                    let rec = Rec::decode(&bytes[crate::layout::HEADER_LEN..crate::layout::SEG_LEN]);
                    if rec.status != 0 {
                        v.fail(format!(
                            "a daemon started over the segment of a previous run ({}) and published status {} (bound {}, as_of {}) after a brief outage, before any synchronised report of its own",
                            if k == 0 { "Synchronized record" } else { "place-holder record of a run that never synchronised" },
                            rec.status,
                            rec.bound,
                            rec.as_of_ns_total()
                        ));
                    }
                }
                drop(up);
            }
            let _ = std::fs::remove_file(&path);
            crate::shmutil::close_leaked_under(&env.dir);
        }
    }
    let mut client_on_untrusted = false;
    for (step, mono, out, _rec) in &run.client_obs {
        v.sub_evals += 1;
        if *step < first_sync {
            client_on_untrusted = true;
            match out {
                NowOut::Ok { status, .. } if *status != 0 => v.fail(format!(
                    "client at uptime {} ns obtained status {} from the record published after outcome {} ({:?}), before any synchronised report",
                    mono, status, step, case.steps[*step].outcome
                )),
                _ => {}
            }
        }
    }
    if fr_before && client_on_untrusted && case.uptime_ns < 1_000_000_000_000 {
        v.nontrivial = true;
        v.label("client-below-1000s-after-freerunning-class");
    }
    v
}

impl Property for C09 {
    type Case = HistCase;
    const ID: &'static str = "C09";
    fn rule() -> String {
        "cases = daemon (re)start at uptime in [0,1000 s) (70 %) or larger, optional valid segment from a previous life, then 1..30 non-synchronised outcomes (leap 3, stale, unusable, no reply within/beyond grace, PHC failure within/beyond grace, non-poll messages), optionally followed by a Sync and more outcomes; 1..5 real ClockBoundClient::now() calls placed after chosen publications at delays 0..1200 s. Oracle: every record published before the first Sync outcome has status Unknown (decoded with PROTOCOL.md offsets) and every client call on such a record reports Unknown. Non-trivial: a FreeRunning-class outcome precedes the first Sync and a client asked at uptime < 1000 s.".into()
    }
    fn cases(tier: Tier) -> u64 {
        match tier {
            Tier::Quick => 400_000,
            Tier::Thorough => 8_000_000,
        }
    }
    fn strategy(_tier: Tier) -> BoxedStrategy<HistCase> {
        c09_strategy()
    }
    fn check(case: &HistCase, env: &mut Env) -> Verdict {
        check_c09_case(case, env)
    }
    fn floors() -> Vec<(&'static str, f64)> {
        vec![("client-below-1000s-after-freerunning-class", 0.2), ("has-later-sync", 0.2), ("preexisting-segment", 0.3)]
    }
    fn max_shrink_iters(_t: Tier) -> u32 {
        2000
    }
}
