//! Generic property runner: proptest TestRunner inside worker processes, shrinking, replay files,
//! label histograms, distinct-nontrivial counting and evidence files.

use proptest::strategy::{BoxedStrategy, Strategy};
use proptest::test_runner::{Config, RngSeed, TestCaseError, TestError, TestRunner};
use serde::de::DeserializeOwned;
use serde::Serialize;
use serde_json::{json, Value};
use std::cell::RefCell;
use std::collections::{BTreeMap, HashSet};
use std::hash::{Hash, Hasher};
use std::io::Write;
use std::path::{Path, PathBuf};

#[derive(Clone, Copy, Debug, PartialEq, Eq)]
pub enum Tier {
    Quick,
    Thorough,
}

impl Tier {
    pub fn name(self) -> &'static str {
        match self {
            Tier::Quick => "quick",
            Tier::Thorough => "thorough",
        }
    }
}

/// Result of checking one case.
#[derive(Debug, Default, Clone)]
pub struct Verdict {
    pub labels: Vec<&'static str>,
    pub nontrivial: bool,
    pub fail: Option<String>,
    /// Extra evaluations performed inside this case (e.g. one per client call).
    pub sub_evals: u64,
}

impl Verdict {
    pub fn label(&mut self, l: &'static str) {
        if !self.labels.contains(&l) {
            self.labels.push(l);
        }
    }
    pub fn fail(&mut self, msg: String) {
        if self.fail.is_none() {
            self.fail = Some(msg);
        }
    }
}

/// Watchdog: the case being executed (serialised lazily) and a progress counter. A helper thread
/// reports the case and ends the process when no progress is made for `case_timeout_s`.
pub struct Watch {
    pub progress: std::sync::atomic::AtomicU64,
    pub current: std::sync::Mutex<Option<Box<dyn Fn() -> String + Send>>>,
}

pub static WATCH: Watch = Watch {
    progress: std::sync::atomic::AtomicU64::new(0),
    current: std::sync::Mutex::new(None),
};

/// Note the case that is about to run (cheap: serialisation happens only if the watchdog fires).
pub fn watch_case<C: Serialize + Clone + Send + 'static>(case: &C) {
    let c = case.clone();
    if let Ok(mut g) = WATCH.current.lock() {
        *g = Some(Box::new(move || serde_json::to_string(&c).unwrap_or_default()));
    }
    WATCH.progress.fetch_add(1, std::sync::atomic::Ordering::Relaxed);
}

/// Tell the watchdog that the process is alive (long enumerations call this between cases).
pub fn tick() {
    WATCH.progress.fetch_add(1, std::sync::atomic::Ordering::Relaxed);
}

/// Start the watchdog thread: if the progress counter stands still for `timeout_s`, write the
/// current case to `hang_file` and exit the process with status 3.
pub fn start_watchdog(timeout_s: u64, hang_file: PathBuf) {
    std::thread::spawn(move || {
        let mut last = WATCH.progress.load(std::sync::atomic::Ordering::Relaxed);
        let mut since = crate::clock::real_mono_s();
        loop {
            std::thread::sleep(std::time::Duration::from_millis(500));
            let now = WATCH.progress.load(std::sync::atomic::Ordering::Relaxed);
            if now != last {
                last = now;
                since = crate::clock::real_mono_s();
                continue;
            }
            if crate::clock::real_mono_s() - since > timeout_s as f64 {
                let text = WATCH.current.lock().ok().and_then(|g| g.as_ref().map(|f| f())).unwrap_or_default();
                let _ = std::fs::write(&hang_file, text);
                std::process::exit(3);
            }
        }
    });
}

/// Scratch environment of one worker process.
pub struct Env {
    pub dir: PathBuf,
    pub tier: Tier,
    pub worker: usize,
    pub counter: u64,
    /// Strict mode: used by --replay (no tolerance of known findings).
    pub replay: bool,
    pub any: BTreeMap<&'static str, Box<dyn std::any::Any>>,
}

impl Env {
    pub fn new(dir: &Path, tier: Tier, worker: usize) -> Env {
        std::fs::create_dir_all(dir).expect("scratch dir");
        Env {
            dir: dir.to_path_buf(),
            tier,
            worker,
            counter: 0,
            replay: false,
            any: BTreeMap::new(),
        }
    }
    pub fn fresh_path(&mut self, stem: &str) -> PathBuf {
        self.counter += 1;
        self.dir.join(format!("{}-{}-{}", stem, self.worker, self.counter))
    }
}

/// Property-specific additional work (enumerations, sweeps) run once by the parent.
#[derive(Default, Serialize, serde::Deserialize)]
pub struct Extra {
    pub evaluations: u64,
    pub nontrivial_hashes: Vec<u64>,
    pub labels: BTreeMap<String, u64>,
    pub samples: Vec<Value>,
    pub exhaustive_note: Option<String>,
    /// (reason, replay-json)
    pub failure: Option<(String, Value)>,
    pub extra_coverage: BTreeMap<String, Value>,
}

impl Extra {
    pub fn label(&mut self, l: &str) {
        *self.labels.entry(l.to_string()).or_insert(0) += 1;
    }
}

pub trait Property {
    type Case: std::fmt::Debug + Clone + Serialize + DeserializeOwned + Send + 'static;
    const ID: &'static str;
    const LEVEL: &'static str = "exploration";
    fn rule() -> String;
    fn assumptions() -> Vec<String> {
        vec![]
    }
    /// Total number of generated cases for the tier (split over workers).
    fn cases(tier: Tier) -> u64;
    fn workers(_tier: Tier) -> usize {
        16
    }
    fn strategy(tier: Tier) -> BoxedStrategy<Self::Case>;
    fn check(case: &Self::Case, env: &mut Env) -> Verdict;
    /// Labels that must reach at least this fraction of the generated cases (generator health).
    fn floors() -> Vec<(&'static str, f64)> {
        vec![]
    }
    fn extra(_tier: Tier, _env: &mut Env, _seed: u64) -> Extra {
        Extra::default()
    }
    fn max_shrink_iters(_tier: Tier) -> u32 {
        4000
    }
    /// A single case that runs longer than this is reported (with the case) and the process ended.
    fn case_timeout_s() -> u64 {
        180
    }
    /// Whether "a case never returns" violates the property itself (boundedness is what is claimed);
    /// otherwise a hang is reported as inconclusive (exit 2).
    fn hang_is_violation() -> bool {
        false
    }
    /// Whether a case that kills the process (SIGSEGV, SIGBUS, SIGABRT ...) while the code under
    /// test handles it violates the property (the property promises a clean result for every input
    /// of its domain). The crashing case is located by running the worker once more with a case log
    /// and must crash a fresh replay process as well; otherwise a dead worker is inconclusive.
    fn crash_is_violation() -> bool {
        false
    }
    /// Wall-clock cap on shrinking (ms); the best case found so far is reported when it is hit.
    fn max_shrink_time_ms(_tier: Tier) -> u32 {
        20_000
    }
    /// Hook run once in every process before anything else (e.g. install vmem hooks).
    fn init() {}
    /// Decode raw fuzzer bytes into a case (coverage-guided targets and `--replay` of fuzz artifacts).
    fn from_fuzz_bytes(_data: &[u8]) -> Option<Self::Case> {
        None
    }
    /// Odd-numbered workers run the build with overflow checks and debug assertions (profile relchk).
    fn use_checked_build() -> bool {
        false
    }
}

pub fn hash_str(s: &str) -> u64 {
    let mut h = std::collections::hash_map::DefaultHasher::new();
    s.hash(&mut h);
    h.finish()
}

fn splitmix(mut x: u64) -> u64 {
    x = x.wrapping_add(0x9E3779B97F4A7C15);
    let mut z = x;
    z = (z ^ (z >> 30)).wrapping_mul(0xBF58476D1CE4E5B9);
    z = (z ^ (z >> 27)).wrapping_mul(0x94D049BB133111EB);
    z ^ (z >> 31)
}

pub fn verif_seed() -> u64 {
    std::env::var("VERIF_SEED")
        .ok()
        .and_then(|s| s.trim().parse::<i64>().ok())
        .map(|v| v as u64)
        .unwrap_or(0)
}

#[derive(Default)]
struct Counters {
    evaluations: u64,
    cases: u64,
    nontrivial: u64,
    labels: BTreeMap<String, u64>,
    hashes: HashSet<u64>,
    samples: Vec<Value>,
    trivial_sample: Option<Value>,
    failed: bool,
}

pub fn quiet_panics() {
    if std::env::var("VERIF_LOUD").is_ok() {
        return;
    }
    std::panic::set_hook(Box::new(|_| {}));
}

/// Run `n` generated cases in this process. Writes `<dir>/w<i>.json` and `<dir>/w<i>.hashes`.
pub fn run_worker<P: Property>(tier: Tier, seed: u64, worker: usize, n: u64, dir: &Path) -> i32 {
    P::init();
    quiet_panics();
    let wseed = splitmix(seed.wrapping_mul(1_000_003) ^ hash_str(P::ID) ^ ((worker as u64) << 48));
    let config = Config {
        cases: n as u32,
        failure_persistence: None,
        rng_seed: RngSeed::Fixed(wseed),
        max_shrink_iters: P::max_shrink_iters(tier),
        max_shrink_time: P::max_shrink_time_ms(tier),
        max_global_rejects: 1 << 20,
        ..Config::default()
    };
    let mut runner = TestRunner::new(config);
    let strategy = P::strategy(tier);
    let env = RefCell::new(Env::new(&dir.join(format!("scratch{}", worker)), tier, worker));
    let ctr = RefCell::new(Counters::default());
    let trace = std::env::var("VERIF_TRACE").is_ok();
    start_watchdog(P::case_timeout_s(), dir.join(format!("w{}.hang.json", worker)));
    // VERIF_CASELOG: every case is written out (unbuffered) before it runs, so that the case that
    // kills the process can be read back by the parent
    let caselog = std::env::var("VERIF_CASELOG").ok().and_then(|p| std::fs::OpenOptions::new().create(true).append(true).open(p).ok());
    let result = runner.run(&strategy, |case| {
        watch_case(&case);
        if let Some(mut f) = caselog.as_ref() {
            use std::io::Write;
            let mut line = serde_json::to_vec(&case).unwrap_or_default();
            line.push(b'\n');
            let _ = f.write_all(&line);
        }
        if trace {
            eprintln!("CASE {}", serde_json::to_string(&case).unwrap_or_default());
        }
        let v = {
            let mut e = env.borrow_mut();
            match std::panic::catch_unwind(std::panic::AssertUnwindSafe(|| P::check(&case, &mut e))) {
                Ok(v) => v,
                Err(p) => {
                    let msg = p
                        .downcast_ref::<String>()
                        .cloned()
                        .or_else(|| p.downcast_ref::<&str>().map(|s| s.to_string()))
                        .unwrap_or_else(|| "panic".into());
                    Verdict {
                        fail: Some(format!("panic escaped the check: {}", msg)),
                        ..Default::default()
                    }
                }
            }
        };
        if trace {
            eprintln!("  -> {:?}", v.fail);
        }
        let mut c = ctr.borrow_mut();
        if !c.failed {
            c.cases += 1;
            c.evaluations += 1 + v.sub_evals;
            for l in &v.labels {
                *c.labels.entry(l.to_string()).or_insert(0) += 1;
            }
            if v.nontrivial {
                c.nontrivial += 1;
                let js = serde_json::to_string(&case).unwrap_or_default();
                if c.hashes.insert(hash_str(&js)) && c.samples.len() < 3 {
                    c.samples.push(json!({"case": serde_json::to_value(&case).unwrap_or(Value::Null), "labels": v.labels}));
                }
            } else if c.trivial_sample.is_none() {
                c.trivial_sample = Some(json!({"case": serde_json::to_value(&case).unwrap_or(Value::Null), "labels": v.labels, "trivial": true}));
            }
        }
        match v.fail {
            Some(msg) => {
                c.failed = true;
                Err(TestCaseError::fail(msg))
            }
            None => Ok(()),
        }
    });
    let c = ctr.into_inner();
    let mut out = json!({
        "worker": worker,
        "seed": wseed,
        "cases": c.cases,
        "evaluations": c.evaluations,
        "nontrivial": c.nontrivial,
        "labels": c.labels,
        "samples": c.samples,
        "trivial_sample": c.trivial_sample,
    });
    let mut code = 0;
    match result {
        Ok(()) => {}
        Err(TestError::Fail(reason, case)) => {
            out["failure"] = json!({
                "reason": reason.message().to_string(),
                "case": serde_json::to_value(&case).unwrap_or(Value::Null),
            });
            code = 1;
        }
        Err(TestError::Abort(reason)) => {
            out["abort"] = json!(reason.message().to_string());
            code = 2;
        }
    }
    let mut hb = Vec::with_capacity(c.hashes.len() * 8);
    for h in &c.hashes {
        hb.extend_from_slice(&h.to_le_bytes());
    }
    std::fs::write(dir.join(format!("w{}.hashes", worker)), hb).expect("write hashes");
    std::fs::write(dir.join(format!("w{}.json", worker)), serde_json::to_vec(&out).unwrap()).expect("write result");
    let _ = std::fs::remove_dir_all(env.borrow().dir.clone());
    code
}

/// Replay one saved case outside proptest. Returns the failure message if it fails.
pub fn replay_value<P: Property>(case: &Value, env: &mut Env) -> Result<Verdict, String> {
    let case: P::Case = serde_json::from_value(case.clone()).map_err(|e| format!("cannot decode case: {}", e))?;
    env.replay = true;
    let r = std::panic::catch_unwind(std::panic::AssertUnwindSafe(|| P::check(&case, env)));
    env.replay = false;
    match r {
        Ok(v) => Ok(v),
        Err(_) => Ok(Verdict {
            fail: Some("panic escaped the check".into()),
            ..Default::default()
        }),
    }
}

pub fn verif_root() -> PathBuf {
    std::env::var("VERIF_ROOT").map(PathBuf::from).unwrap_or_else(|_| PathBuf::from("/verif"))
}

fn scratch_root() -> PathBuf {
    let base = if Path::new("/dev/shm").is_dir() { "/dev/shm" } else { "/var/tmp" };
    PathBuf::from(format!("{}/clockbound-verif.{}", base, std::process::id()))
}

pub struct KnownFinding {
    pub property: String,
    pub signature: String,
    pub status: String,
    pub what: String,
}

pub fn load_known_findings() -> Vec<KnownFinding> {
    let p = verif_root().join("known_findings.json");
    let Ok(s) = std::fs::read_to_string(&p) else { return vec![] };
    let Ok(v) = serde_json::from_str::<Value>(&s) else { return vec![] };
    let mut out = vec![];
    if let Some(a) = v.get("findings").and_then(|x| x.as_array()) {
        for f in a {
            out.push(KnownFinding {
                property: f["property"].as_str().unwrap_or("").into(),
                signature: f["signature"].as_str().unwrap_or("").into(),
                status: f["status"].as_str().unwrap_or("").into(),
                what: f["what"].as_str().unwrap_or("").into(),
            });
        }
    }
    out
}

fn write_replay(id: &str, reason: &str, case: &Value, seed: u64) -> PathBuf {
    let dir = verif_root().join("replays");
    let _ = std::fs::create_dir_all(&dir);
    let body = json!({"property": id, "reason": reason, "seed": seed, "case": case});
    let text = serde_json::to_string_pretty(&body).unwrap();
    let h = hash_str(&serde_json::to_string(case).unwrap_or_default());
    let p = dir.join(format!("{}-{:016x}.json", id, h));
    std::fs::write(&p, text).expect("write replay");
    p
}

/// Entry point for one property: parses the command line after the property id.
///   [--tier quick|thorough] [--replay FILE] [--worker I N DIR] [--cases N]
pub fn main_for<P: Property>(args: &[String]) -> i32 {
    let mut tier = match std::env::var("VERIF_TIER").as_deref() {
        Ok("thorough") => Tier::Thorough,
        _ => Tier::Quick,
    };
    let mut replay: Option<String> = None;
    let mut worker: Option<(usize, u64, String)> = None;
    let mut cases_override: Option<u64> = None;
    let mut extra_dir: Option<String> = None;
    let mut i = 0;
    while i < args.len() {
        match args[i].as_str() {
            "--tier" => {
                tier = if args[i + 1] == "thorough" { Tier::Thorough } else { Tier::Quick };
                i += 1;
            }
            "--replay" => {
                replay = Some(args[i + 1].clone());
                i += 1;
            }
            "--worker" => {
                worker = Some((args[i + 1].parse().unwrap(), args[i + 2].parse().unwrap(), args[i + 3].clone()));
                i += 3;
            }
            "--extra" => {
                extra_dir = Some(args[i + 1].clone());
                i += 1;
            }
            "--cases" => {
                cases_override = Some(args[i + 1].parse().unwrap());
                i += 1;
            }
            _ => {}
        }
        i += 1;
    }
    let seed = verif_seed();
    if let Some((w, n, dir)) = worker {
        return run_worker::<P>(tier, seed, w, n, Path::new(&dir));
    }
    if let Some(dir) = extra_dir {
        // child process: run the property-specific enumerations and write the result as JSON
        P::init();
        quiet_panics();
        let root = PathBuf::from(&dir);
        start_watchdog(if tier == Tier::Thorough { 14_400 } else { P::case_timeout_s().max(120) }, root.join("extra.hang.json"));
        let mut env = Env::new(&root.join("extra-scratch"), tier, 98);
        let extra = P::extra(tier, &mut env, seed);
        let _ = std::fs::write(root.join("extra.json"), serde_json::to_vec(&extra).unwrap_or_default());
        return 0;
    }
    P::init();
    let t0 = crate::clock::real_mono_s();
    let root = scratch_root();
    let _ = std::fs::remove_dir_all(&root);
    std::fs::create_dir_all(&root).expect("scratch root");
    let code = parent::<P>(tier, seed, replay, cases_override, &root, t0);
    let _ = std::fs::remove_dir_all(&root);
    code
}

fn parent<P: Property>(tier: Tier, seed: u64, replay: Option<String>, cases_override: Option<u64>, root: &Path, t0: f64) -> i32 {
    quiet_panics();
    let mut env = Env::new(&root.join("parent"), tier, 99);
    // --replay FILE: strict re-execution of one saved case, in a child process under a deadline
    if let (Some(f), false) = (&replay, std::env::var("VERIF_REPLAY_INNER").is_ok()) {
        let exe = std::env::current_exe().expect("current_exe");
        let mut ch = match std::process::Command::new(&exe).arg(P::ID.to_lowercase()).arg("--replay").arg(f).env("VERIF_REPLAY_INNER", "1").spawn() {
            Ok(c) => c,
            Err(e) => {
                eprintln!("cannot start the replay process: {}", e);
                return 2;
            }
        };
        let t_start = crate::clock::real_mono_s();
        loop {
            match ch.try_wait() {
                Ok(Some(st)) => {
                    use std::os::unix::process::ExitStatusExt;
                    if let (Some(sig), true) = (st.signal(), P::crash_is_violation()) {
                        println!("replay killed the process (signal {})", sig);
                        println!("VIOLATION property={} replay={}", P::ID, f);
                        return 1;
                    }
                    return st.code().unwrap_or(2);
                }
                Ok(None) => {}
                Err(_) => return 2,
            }
            if crate::clock::real_mono_s() - t_start > P::case_timeout_s() as f64 {
                let _ = ch.kill();
                let _ = ch.wait();
                println!("replay did not return within {} s", P::case_timeout_s());
                if P::hang_is_violation() {
                    println!("VIOLATION property={} replay={}", P::ID, f);
                    return 1;
                }
                return 2;
            }
            std::thread::sleep(std::time::Duration::from_millis(50));
        }
    }
    if let Some(f) = replay {
        let text = match std::fs::read(&f) {
            Ok(t) => String::from_utf8_lossy(&t).to_string(),
            Err(e) => {
                eprintln!("cannot read {}: {}", f, e);
                return 2;
            }
        };
        let v: Value = serde_json::from_str(&text).unwrap_or(Value::Null);
        let case = if v.get("case").is_some() {
            v["case"].clone()
        } else if v.is_null() {
            // not JSON: a fuzzer artifact (raw bytes)
            match std::fs::read(&f).ok().and_then(|b| P::from_fuzz_bytes(&b)) {
                Some(c) => serde_json::to_value(&c).unwrap_or(Value::Null),
                None => Value::Null,
            }
        } else {
            v
        };
        return match replay_value::<P>(&case, &mut env) {
            Ok(Verdict { fail: Some(msg), .. }) => {
                println!("replay fails: {}", msg);
                println!("VIOLATION property={} replay={}", P::ID, f);
                1
            }
            Ok(_) => {
                println!("replay passes");
                0
            }
            Err(e) => {
                eprintln!("{}", e);
                2
            }
        };
    }

    let mut violations: Vec<(String, PathBuf)> = vec![];
    let mut replayed = 0u64;
    // 1. regression tier: replay saved cases of this property.
    for sub in ["replays", "corpus"] {
        let dir = verif_root().join(sub);
        let Ok(rd) = std::fs::read_dir(&dir) else { continue };
        let mut files: Vec<PathBuf> = rd.filter_map(|e| e.ok()).map(|e| e.path()).collect();
        files.sort();
        for f in files {
            let name = f.file_name().unwrap().to_string_lossy().to_string();
            if !name.starts_with(&format!("{}-", P::ID)) || !name.ends_with(".json") {
                continue;
            }
            let Ok(text) = std::fs::read_to_string(&f) else { continue };
            let Ok(v) = serde_json::from_str::<Value>(&text) else { continue };
            let case = if v.get("case").is_some() { v["case"].clone() } else { v };
            replayed += 1;
            if let Ok(Verdict { fail: Some(msg), .. }) = replay_value::<P>(&case, &mut env) {
                println!("saved case {} fails: {}", f.display(), msg);
                violations.push((msg, f.clone()));
            }
        }
    }

    // 2. generated cases in worker processes.
    let total = cases_override.unwrap_or_else(|| P::cases(tier));
    let nw = P::workers(tier).max(1).min(total.max(1) as usize);
    let exe = std::env::current_exe().expect("current_exe");
    let mut children = vec![];
    for w in 0..nw {
        let n = total / nw as u64 + if (w as u64) < total % nw as u64 { 1 } else { 0 };
        let chk = std::path::PathBuf::from("/verif/target/relchk/vcheck");
        let this_exe = if P::use_checked_build() && w % 2 == 1 && chk.exists() { chk } else { exe.clone() };
        let child = std::process::Command::new(&this_exe)
            .arg(P::ID.to_lowercase())
            .arg("--tier")
            .arg(tier.name())
            .arg("--worker")
            .arg(w.to_string())
            .arg(n.to_string())
            .arg(root.to_string_lossy().to_string())
            .env("VERIF_SEED", (seed as i64).to_string())
            .spawn()
            .expect("spawn worker");
        children.push((w, child));
    }
    // 3. property-specific extras in the parent meanwhile.
    // (in a child process with its own watchdog: a hang inside an enumerated case must not hang the check)
    let extra_out = root.join("extra.json");
    let extra_child = std::process::Command::new(&exe)
        .arg(P::ID.to_lowercase())
        .arg("--tier")
        .arg(tier.name())
        .arg("--extra")
        .arg(root.to_string_lossy().to_string())
        .env("VERIF_SEED", (seed as i64).to_string())
        .spawn();
    let mut hang_reports: Vec<(String, PathBuf)> = vec![];
    let extra: Extra = match extra_child {
        Ok(mut ch) => {
            let st = ch.wait();
            match std::fs::read(&extra_out).ok().and_then(|b| serde_json::from_slice::<Extra>(&b).ok()) {
                Some(e) => e,
                None => {
                    let hf = root.join("extra.hang.json");
                    if hf.exists() {
                        let dst = verif_root().join("replays").join(format!("{}-hang-extra.json", P::ID));
                        let _ = std::fs::create_dir_all(verif_root().join("replays"));
                        let _ = std::fs::copy(&hf, &dst);
                        hang_reports.push(("an enumerated case did not return".to_string(), dst));
                    } else {
                        hang_reports.push((format!("the process running the enumerated cases died without a result ({:?})", st), PathBuf::new()));
                    }
                    Extra::default()
                }
            }
        }
        Err(e) => {
            hang_reports.push((format!("cannot start the process for the enumerated cases: {}", e), PathBuf::new()));
            Extra::default()
        }
    };

    let mut evaluations = extra.evaluations + replayed;
    let mut cases = 0u64;
    let mut labels: BTreeMap<String, u64> = extra.labels.clone();
    let mut hashes: HashSet<u64> = extra.nontrivial_hashes.iter().copied().collect();
    let mut samples: Vec<Value> = vec![];
    let mut inconclusive: Vec<String> = vec![];
    for (w, mut child) in children {
        let status = child.wait().expect("wait");
        let res = std::fs::read(root.join(format!("w{}.json", w))).ok().and_then(|b| serde_json::from_slice::<Value>(&b).ok());
        match res {
            Some(v) => {
                evaluations += v["evaluations"].as_u64().unwrap_or(0);
                cases += v["cases"].as_u64().unwrap_or(0);
                if let Some(m) = v["labels"].as_object() {
                    for (k, n) in m {
                        *labels.entry(k.clone()).or_insert(0) += n.as_u64().unwrap_or(0);
                    }
                }
                if samples.len() < 4 {
                    if let Some(a) = v["samples"].as_array() {
                        for s in a.iter().take(2) {
                            samples.push(s.clone());
                        }
                    }
                }
                if samples.is_empty() && !v["trivial_sample"].is_null() && w + 1 == nw {
                    samples.push(v["trivial_sample"].clone());
                }
                if let Ok(hb) = std::fs::read(root.join(format!("w{}.hashes", w))) {
                    for ch in hb.chunks_exact(8) {
                        hashes.insert(u64::from_le_bytes(ch.try_into().unwrap()));
                    }
                }
                if !v["failure"].is_null() {
                    let reason = v["failure"]["reason"].as_str().unwrap_or("").to_string();
                    let case = v["failure"]["case"].clone();
                    // confirm deterministically outside proptest
                    let confirmed = matches!(replay_value::<P>(&case, &mut env), Ok(Verdict { fail: Some(_), .. }));
                    let p = write_replay(P::ID, &reason, &case, seed);
                    if reason.contains("HARNESS") {
                        inconclusive.push(format!("worker {}: {}", w, reason));
                    } else if confirmed {
                        println!("worker {}: {}", w, reason);
                        violations.push((reason, p));
                    } else {
                        inconclusive.push(format!("worker {} reported a failure that did not reproduce on replay ({}): {}", w, p.display(), reason));
                    }
                }
                if !v["abort"].is_null() {
                    inconclusive.push(format!("worker {} aborted: {}", w, v["abort"]));
                }
            }
            None => {
                let hf = root.join(format!("w{}.hang.json", w));
                if hf.exists() {
                    let dst = verif_root().join("replays").join(format!("{}-hang-w{}.json", P::ID, w));
                    let _ = std::fs::create_dir_all(verif_root().join("replays"));
                    let _ = std::fs::copy(&hf, &dst);
                    hang_reports.push((format!("worker {}: a generated case did not return within {} s", w, P::case_timeout_s()), dst));
                } else {
                    use std::os::unix::process::ExitStatusExt;
                    let mut reported = false;
                    if let (Some(sig), true) = (status.signal(), P::crash_is_violation()) {
                        // run the same worker again with a case log, read back the case it died on,
                        // and confirm in a fresh process
                        let log = root.join(format!("w{}.caselog", w));
                        let n = total / nw as u64 + if (w as u64) < total % nw as u64 { 1 } else { 0 };
                        let _ = std::process::Command::new(&exe)
                            .arg(P::ID.to_lowercase())
                            .arg("--tier")
                            .arg(tier.name())
                            .arg("--worker")
                            .arg(w.to_string())
                            .arg(n.to_string())
                            .arg(root.to_string_lossy().to_string())
                            .env("VERIF_SEED", (seed as i64).to_string())
                            .env("VERIF_CASELOG", &log)
                            .status();
                        let last = std::fs::read_to_string(&log).ok().and_then(|t| t.lines().last().map(|l| l.to_string()));
                        if let Some(case) = last.and_then(|l| serde_json::from_str::<Value>(&l).ok()) {
                            let reason = format!("the process died with signal {} while the code under test handled this case", sig);
                            let p = write_replay(P::ID, &reason, &case, seed);
                            let st = std::process::Command::new(&exe).arg(P::ID.to_lowercase()).arg("--replay").arg(&p).env("VERIF_REPLAY_INNER", "1").stdout(std::process::Stdio::null()).status();
                            if let Ok(st) = st {
                                if st.signal().is_some() {
                                    println!("worker {}: {}", w, reason);
                                    violations.push((reason, p));
                                    reported = true;
                                }
                            }
                        }
                    }
                    if !reported {
                        inconclusive.push(format!("worker {} died without a result ({:?})", w, status));
                    }
                }
            }
        }
    }
    for s in extra.samples.iter().take(3) {
        samples.push(s.clone());
    }
    if let Some((reason, case)) = &extra.failure {
        // failures of the enumerated extras are confirmed by a second execution, like generated ones
        // (a failure whose payload is not a replayable case - e.g. an ABI report - is taken as is)
        let confirmed = match replay_value::<P>(case, &mut env) {
            Ok(Verdict { fail: Some(_), .. }) => true,
            Ok(_) => false,
            Err(_) => true,
        };
        let p = write_replay(P::ID, reason, case, seed);
        if reason.contains("HARNESS") || reason.starts_with("harness") {
            inconclusive.push(format!("extra: {}", reason));
        } else if confirmed {
            println!("extra: {}", reason);
            violations.push((reason.clone(), p));
        } else {
            inconclusive.push(format!("extra: a failure did not reproduce on replay ({}): {}", p.display(), reason));
        }
    }

    for (m, p) in hang_reports {
        if P::hang_is_violation() && p.as_os_str().len() > 0 {
            println!("{} (case saved in {})", m, p.display());
            violations.push((m, p));
        } else {
            inconclusive.push(format!("{} {}", m, p.display()));
        }
    }
    // generator health floors
    for (l, frac) in P::floors() {
        let have = labels.get(l).copied().unwrap_or(0) as f64;
        if cases > 0 && have < frac * cases as f64 && violations.is_empty() {
            inconclusive.push(format!("label '{}' reached {} of {} cases, below the floor {:.3}", l, have, cases, frac));
        }
    }

    let wall = crate::clock::real_mono_s() - t0;
    let mut coverage = json!({
        "evaluations": evaluations,
        "generated_cases": cases,
        "saved_cases_replayed": replayed,
        "distinct_nontrivial": hashes.len(),
        "rule": P::rule(),
        "labels": labels,
        "samples": samples,
        "workers": nw,
    });
    if let Some(n) = &extra.exhaustive_note {
        coverage["exhaustive"] = json!(true);
        coverage["exhaustive_scope"] = json!(n);
    }
    for (k, v) in &extra.extra_coverage {
        coverage[k.as_str()] = v.clone();
    }
    if !inconclusive.is_empty() {
        coverage["inconclusive"] = json!(inconclusive);
    }
    let evidence = json!({
        "property_id": P::ID,
        "tier": tier.name(),
        "seed": seed as i64,
        "level": P::LEVEL,
        "coverage": coverage,
        "assumptions": P::assumptions(),
        "wall_s": (wall * 1000.0).round() / 1000.0,
        "violations": violations.len(),
    });
    let evdir = verif_root().join("evidence");
    let _ = std::fs::create_dir_all(&evdir);
    let mut f = std::fs::File::create(evdir.join(format!("{}.json", P::ID))).expect("evidence file");
    f.write_all(serde_json::to_string_pretty(&evidence).unwrap().as_bytes()).unwrap();
    f.write_all(b"\n").unwrap();

    println!(
        "{} {}: {} evaluations ({} generated cases, {} distinct non-trivial), {:.1}s",
        P::ID,
        tier.name(),
        evaluations,
        cases,
        hashes.len(),
        wall
    );
    if !violations.is_empty() {
        for (_, p) in &violations {
            println!("VIOLATION property={} replay={}", P::ID, p.display());
        }
        return 1;
    }
    if !inconclusive.is_empty() {
        for m in &inconclusive {
            println!("INCONCLUSIVE: {}", m);
        }
        return 2;
    }
    0
}

/// Monotone index mapping for shrink-friendly choices: maps a u16 onto 0..len.
pub fn pick(i: u16, len: usize) -> usize {
    if len == 0 {
        0
    } else {
        ((i as usize) * len) >> 16
    }
}

pub fn boxed<S: Strategy + 'static>(s: S) -> BoxedStrategy<S::Value> {
    s.boxed()
}

/// Whether known_findings.json lists (property, signature) with status "known".
pub fn is_known_finding(property: &str, signature: &str) -> bool {
    thread_local! {
        static KF: Vec<KnownFinding> = load_known_findings();
    }
    KF.with(|k| k.iter().any(|f| f.property == property && f.signature == signature && f.status == "known"))
}
