//! Reference models written from the property statements / README / clockbound.h, in exact
//! integer arithmetic. Nothing here calls the implementation.

use crate::layout::Rec;
use serde::{Deserialize, Serialize};

pub const NS: i128 = 1_000_000_000;
pub const GRACE_NS: i128 = 5 * NS;

#[derive(Clone, Copy, Debug, PartialEq, Eq, Serialize, Deserialize)]
pub enum ErrKind {
    Syscall,
    NotInitialized,
    Malformed,
    Causality,
}

/// Observable result of one now() call, in harness terms.
#[derive(Clone, Debug, PartialEq, Eq, Serialize, Deserialize)]
pub enum NowOut {
    Ok { earliest_ns: i128, latest_ns: i128, status: i32 },
    Err { kind: ErrKind, errno: i32, detail: String },
}

/// Status the client may report (C06 table), given stored status and the monotonic reading.
pub fn model_status(rec: &Rec, mono_ns: i128) -> i32 {
    let as_of = rec.as_of_ns_total();
    let void_after = rec.void_ns_total();
    match rec.status {
        1 => {
            if mono_ns < as_of + GRACE_NS {
                1
            } else if mono_ns < void_after {
                2
            } else {
                0
            }
        }
        2 => {
            // FreeRunning stored: FreeRunning until void-after (both sides of the 5 s mark).
            if mono_ns < as_of + GRACE_NS || mono_ns < void_after {
                2
            } else {
                0
            }
        }
        _ => 0,
    }
}

#[derive(Clone, Copy, Debug, PartialEq, Eq)]
pub enum AgeClass {
    /// mono >= as_of : age = mono - as_of
    Normal(i128),
    /// as_of - blur < mono < as_of : age 0
    Blur,
    /// mono == as_of - blur : either outcome acceptable
    Edge,
    /// mono < as_of - blur
    Breach,
}

pub fn age_class(rec: &Rec, mono_ns: i128, blur_ns: i128) -> AgeClass {
    let d = rec.as_of_ns_total() - mono_ns;
    if d <= 0 {
        AgeClass::Normal(-d)
    } else if d < blur_ns {
        AgeClass::Blur
    } else if d == blur_ns {
        AgeClass::Edge
    } else {
        AgeClass::Breach
    }
}

/// Check a half-width against `bound + drift * age / 1e9` with the stated tolerance.
/// Returns Err(description) if outside [bound + g - 1 - tol, bound + g + tol].
pub fn check_half_width(rec: &Rec, age_ns: i128, h: i128) -> Result<(), String> {
    // everything scaled by 1e9 to stay in integers
    let g_num = rec.drift as i128 * age_ns; // g = g_num / 1e9 ns
    let tol = std::cmp::max(1_000_000i128, g_num >> 50); // max(1e-3 ns, g * 2^-50), scaled by 1e9
    let lhs = (h - rec.bound as i128) * NS;
    if lhs < g_num - NS - tol {
        return Err(format!(
            "half-width {} is below bound + drift*age - 1ns (bound {}, drift {} ppb, age {} ns, exact growth {}/1e9 ns)",
            h, rec.bound, rec.drift, age_ns, g_num
        ));
    }
    if lhs > g_num + tol {
        return Err(format!(
            "half-width {} exceeds bound + drift*age (bound {}, drift {} ppb, age {} ns, exact growth {}/1e9 ns)",
            h, rec.bound, rec.drift, age_ns, g_num
        ));
    }
    Ok(())
}

/// Chrony status classes (C08/C10).
#[derive(Clone, Copy, Debug, PartialEq, Eq, Serialize, Deserialize, Hash)]
pub enum Class {
    Unknown,
    Synchronized,
    FreeRunning,
}

impl Class {
    pub fn as_status(self) -> i32 {
        match self {
            Class::Unknown => 0,
            Class::Synchronized => 1,
            Class::FreeRunning => 2,
        }
    }
}

/// C10 reference classification of one report.
/// `age_ns`: now - ref_time (negative = reference time in the future);
/// `eight_interval_ns`: 8 * update interval as an exact rational numerator over `den`.
pub fn classify_report(leap: u16, age_ns: i128, eight_i_num: i128, den: i128) -> Class {
    if age_ns < 0 {
        return Class::Unknown;
    }
    match leap {
        0..=2 => {
            // age <= 8I  <=>  age * den <= eight_i_num   (den > 0)
            if age_ns * den <= eight_i_num {
                Class::Synchronized
            } else {
                Class::FreeRunning
            }
        }
        3 => Class::FreeRunning,
        _ => Class::Unknown,
    }
}
