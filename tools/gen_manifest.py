#!/usr/bin/env python3
"""Generate /verif/MANIFEST.json from the table below (kept valid against the schema)."""
import json, subprocess
ROOT='/verif'
ids=[json.loads(l)['id'] for l in open(f'{ROOT}/properties.jsonl')]
hook_commits=subprocess.run("git -C /repo log --format=%H --grep='^verif hooks' ",shell=True,capture_output=True,text=True).stdout.split()
CHECKS={
 'C05': dict(cat='exploration', ref='DESIGN.md#c05', engine='vcheck',
   technique='property-based testing (proptest generators, exact-arithmetic oracle, metamorphic age relation, 3-way differential Rust struct / Rust client / C library under a virtual clock)',
   text='2M (quick) / 20M (thorough) generated (record, realtime, monotonic) cases per run checked against an exact i128/rational evaluation of bound + drift*age, symmetry, earliest<=latest, monotonic growth with age, and exact agreement of the three client entry points; half the workers run a build with overflow checks on. Sampling with edge-biased generators: finds violations, cannot show absence.',
   note='Trusts: clock_gettime interposition (virtual clock) reaching every clock read of the libraries; f64 tolerance max(1e-3 ns, growth*2^-50); the C library is the release libclockbound.a built from /repo.'),
 'C06': dict(cat='exploration', ref='DESIGN.md#c06', engine='vcheck',
   technique='property-based testing + exhaustive enumeration of the threshold grid (stored status x landmark x -1/0/+1 ns) against the status table of the statement',
   text='Every ordering of the monotonic reading relative to as_of, as_of+5 s and void_after at -1/0/+1 ns is enumerated for all three stored statuses on all three entry points (exhaustive for that grid); 1M/5M random placements in addition.',
   note='Only records with void_after >= as_of + 5 s (as the property states). Virtual clock by symbol interposition.'),
 'C14': dict(cat='exploration', ref='DESIGN.md#c14', engine='vcheck',
   technique='property-based testing over the full stated input range with an error-class oracle, blur constant located by bisection, catch_unwind + overflow-checked build for the no-panic clause, differential over both client libraries',
   text='2M/20M generated records and readings with timestamps in +-2^31 s, bounds < 2^60, drift over all of u32, and as_of-mono concentrated around the blur edge; oracle gives the exact expected outcome (Ok / CausalityBreach / SegmentMalformed with errno 0 and empty detail) for the Rust struct, the Rust client and the C library.',
   note='The blur is assumed to be one constant in [1 ns, 10 ms] (the property names no value); panics are detected in-process, aborts/crashes of the C library by driver death.'),

 'C07': dict(cat='exploration', ref='DESIGN.md#c07', engine='vcheck',
   technique='property-based testing with wire-level generators (raw chrony-float bit fields through the real deserialiser) against an exact big-integer evaluation of the README formula',
   text='2M/50M tracking replies per run; the derived bound must be >= 0, >= the exact sum (1-2^-45) and <= the exact sum (1+2^-45) rounded up, and the published bound must equal it plus the PHC error bound. Every representable float in 2^-64 s..2^20 s is reachable by the generator, both offset signs.',
   note='Values outside exponents -39..21 are not generated (result would not fit i64/f64); relative tolerance 2^-45 for f64 rounding.'),
 'C08': dict(cat='exploration', ref='DESIGN.md#c08', engine='vcheck',
   technique='model-based property testing over generated histories of poll outcomes (reference updater model vs the real process_messages/ShmUpdater/FSM/ShmWriter, read back through ShmReader and PROTOCOL.md offsets)',
   text='400k/8M histories of up to 40 outcomes; after every outcome the published record is compared field by field with the reference model (freeze on loss, advance on sync, void_after, drift, status, one publication per outcome).',
   note='Messages are delivered as a burst into the real mpsc mailbox; the virtual clock is stepped by the sink callback so that each message is processed at its scheduled instant. Status before the first Sync is left to C09.'),
 'C09': dict(cat='exploration', ref='DESIGN.md#c09', engine='vcheck',
   technique='property-based testing over generated start-up histories with real client calls at generated uptimes; invariant: status Unknown before the first synchronised outcome',
   text='400k/8M start-up histories of non-synchronised outcomes (every FreeRunning-class input included) with client calls at uptimes mostly below 1000 s; found the FreeRunning-with-placeholder defect on the pinned tree (fixed in 2bf8b5e).',
   note='Same execution vehicle as C08.'),
 'C10': dict(cat='exploration', ref='DESIGN.md#c10', engine='vcheck',
   technique='exhaustive enumeration of the 65536 leap codes x threshold placements plus property-based testing over intervals/ages, exact rational oracle',
   text='All 65536 leap-status values x 12 (interval, age) combinations are enumerated on every run; 1M/30M random (leap, interval, age, FSM prefix) cases around 8 intervals and around now in addition; checked on extract_bound_from_tracking and on the published status.',
   note='Within one second below 8 intervals either Synchronized or FreeRunning is accepted (whole-second threshold resolution of the implementation is not contradicted by the statement); negative update intervals are outside the domain.'),
}
NA_REASON='check under construction in this session; not claimed until its check is committed'
m={"version":1,
 "setup_cmd":"cd /verif && ./build.sh harness harness-chk cdriver daemon",
 "hooks":{"guard":"cargo feature `verif` (clock-bound-shm/verif, clock-bound-d/verif); enabled by no crate of the repository",
          "enable":"the harness (/verif/harness) depends on /repo/clock-bound-shm, /repo/clock-bound-d, /repo/clock-bound-client by path with features=[\"verif\"]; ./check rebuilds it from the working tree before every run",
          "baseline_off_cmd":"cd /repo && cargo test --workspace --no-fail-fast --offline",
          "source_commits":hook_commits,"add_only":True},
 "engines":[{"name":"vcheck","path":"harness/","serves_properties":sorted(CHECKS),"kind_free_text":"Rust harness: proptest TestRunner in 16 worker processes, shrinking to JSON replay files, exact-arithmetic reference models, virtual clock by clock_gettime interposition, scheduled shared-memory world behind the verif feature"}],
 "checks":[],"not_applicable":[],
 "notes":"All checks: ./check <ID> --tier quick|thorough ; replay: ./check <ID> --replay <file>. VERIF_SEED selects the proptest seeds."}
for i in ids:
    if i in CHECKS:
        c=CHECKS[i]
        m['checks'].append({"property_id":i,"quick_cmd":f"./check {i} --tier quick","thorough_cmd":f"./check {i} --tier thorough",
          "evidence_file":f"/verif/evidence/{i}.json","replay_cmd_template":f"./check {i} --replay {{path}}","engine":c['engine'],
          "level_claimed":{"category":c['cat'],"text":c['text'],"design_ref":c['ref']},"level_note":c['note'],"technique":c['technique']})
    else:
        m['not_applicable'].append({"property_id":i,"reason":NA_REASON})
json.dump(m,open(f'{ROOT}/MANIFEST.json','w'),indent=1)
print(len(m['checks']),'checks,',len(m['not_applicable']),'not applicable')
