#!/usr/bin/env python3
"""Run the quick checks against the seeded changes under /verif/seeded/<name>/ (patch.diff + meta.json).
Usage: seedrun.py [name-substring ...]. For each: git -C /repo apply patch.diff, run the checks named
in meta.json["checks"], record exit status / first violation line in meta.json["results"], undo."""
import json, subprocess, sys, os, time, glob
ROOT='/verif'
def sh(cmd, timeout=1800, **kw):
    try:
        return subprocess.run(cmd, shell=True, capture_output=True, text=True, timeout=timeout, **kw)
    except subprocess.TimeoutExpired as e:
        subprocess.run('pkill -f /verif/target/release/vcheck', shell=True)
        return subprocess.CompletedProcess(cmd, 124, stdout='TIMEOUT', stderr='')
assert sh('git -C /repo status --porcelain').stdout.strip()=='', 'repo dirty'
sel=sys.argv[1:]
for d in sorted(glob.glob(f'{ROOT}/seeded/*/')):
    name=os.path.basename(d.rstrip('/'))
    if sel and not any(s in name for s in sel): continue
    meta=json.load(open(d+'meta.json'))
    r=sh(f'git -C /repo apply {d}patch.diff')
    if r.returncode!=0:
        print(name,'PATCH DOES NOT APPLY',r.stderr[:200]); continue
    results={}
    try:
        for c in meta['checks']:
            t=time.time()
            r=sh(f'{ROOT}/check {c} --tier quick', env=dict(os.environ, VERIF_SEED=os.environ.get('VERIF_SEED','5')))
            line=[l for l in r.stdout.splitlines() if l.startswith(('worker','extra','saved'))][:1]
            results[c]={'exit':r.returncode,'caught': r.returncode==1 and f'VIOLATION property={c}' in r.stdout,'seconds':round(time.time()-t,1),'first_report':(line[0][:400] if line else r.stdout[-300:])}
            print(name,c,results[c]['caught'],results[c]['exit'],results[c]['seconds'],results[c]['first_report'][:160],flush=True)
    finally:
        sh('git -C /repo checkout -- .')
        sh("cd /verif && git status --porcelain -uall replays | awk '/^\\?\\?/{print $2}' | xargs -r rm -f")
    meta['results']=results
    meta['ran']=f"git -C /repo apply seeded/{name}/patch.diff; ./check <ID> --tier quick (VERIF_SEED={os.environ.get('VERIF_SEED','5')}); git -C /repo checkout -- ."
    json.dump(meta,open(d+'meta.json','w'),indent=1)
assert sh('git -C /repo status --porcelain').stdout.strip()=='', 'repo dirty after run'
