#!/bin/bash
# Run every quick check on the current tree with several VERIF_SEED values; anything but rc=0 is reported.
cd /verif
for seed in "$@"; do
  for id in $(python3 -c "import json;print(' '.join(c['property_id'] for c in json.load(open('MANIFEST.json'))['checks']))"); do
    out=$(VERIF_SEED=$seed timeout 1500 ./check $id --tier quick 2>&1); rc=$?
    echo "seed=$seed $id rc=$rc $(echo "$out" | grep -E "VIOLATION|INCONCLUSIVE" | head -2 | tr '\n' ' ' | cut -c1-300)"
  done
done
