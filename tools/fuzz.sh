#!/bin/bash
# tools/fuzz.sh <ID> <target> <runs> <max_len>
# Coverage-guided campaign (libFuzzer + ASan via cargo-fuzz, nightly) on a target whose bytes are
# decoded into the same case structure and judged by the same oracle as the proptest check of <ID>.
# Two campaigns: from the committed seed corpus (corpus/<target>/) and from an empty corpus.
# Exit 0: no violation; 1: violation (artifact copied to replays/, VIOLATION line printed); 2: could not run.
set -u
ID=$1; TARGET=$2; RUNS=$3; MAXLEN=$4
cd /verif
export CARGO_NET_OFFLINE=true
SEED=${VERIF_SEED:-0}; [ "$SEED" = "0" ] && SEED=1
FD=/verif/harness/fuzz; TD=/verif/target/fuzz
cp -f /verif/harness/Cargo.lock $FD/Cargo.lock 2>/dev/null
( cd $FD && cargo +nightly fuzz build --fuzz-dir $FD --target-dir $TD $TARGET >/verif/target/fuzz-build-$TARGET.log 2>&1 ) || { echo "fuzz build failed for $TARGET (see target/fuzz-build-$TARGET.log)"; exit 2; }
BIN=$TD/x86_64-unknown-linux-gnu/release/$TARGET
[ -x $BIN ] || { echo "fuzz binary $BIN missing"; exit 2; }
rc=0; stats="[]"
for mode in seeded empty; do
  W=/verif/target/fuzz-work/$TARGET-$mode; rm -rf $W; mkdir -p $W/corpus $W/artifacts
  if [ $mode = seeded ] && [ -d /verif/corpus/$TARGET ]; then cp /verif/corpus/$TARGET/* $W/corpus/ 2>/dev/null; fi
  LOG=$W/log.txt
  # (coroutine stack switches: fake stacks off; the world-based targets grow ~35 KB per run under ASan)
  # (-timeout=0: libFuzzer's per-unit timer computes elapsed time with clock_gettime, which the harness
  #  interposes: an alarm landing while a virtual clock is installed saw "minus three years" and reported
  #  a time-out; the campaign as a whole stays bounded by the outer `timeout`)
  ASAN_OPTIONS=detect_stack_use_after_return=0:quarantine_size_mb=64:detect_leaks=0 timeout 7200 $BIN $W/corpus -runs=$RUNS -seed=$SEED -len_control=0 -max_len=$MAXLEN -timeout=0 -rss_limit_mb=20000 -artifact_prefix=$W/artifacts/ -print_final_stats=1 >$LOG 2>&1
  st=$?
  cov=$(grep -E "^#[0-9]+\s+(DONE|pulse|NEW|REDUCE|INITED)" $LOG | tail -1 | sed -E 's/.*cov: ([0-9]+) ft: ([0-9]+) corp: ([0-9]+).*/\1 \2 \3/')
  done_runs=$(grep -E "stat::number_of_executed_units" $LOG | awk '{print $2}')
  crash=$(ls $W/artifacts 2>/dev/null | head -1)
  if [ -n "$crash" ]; then
    if grep -q "VERIF-FUZZ-VIOLATION" $LOG; then
      h=$(sha1sum $W/artifacts/$crash | cut -c1-16); dst=/verif/replays/$ID-fuzz-$h.bin
      cp $W/artifacts/$crash $dst
      grep -m1 "VERIF-FUZZ-VIOLATION" $LOG | cut -c1-600
      echo "VIOLATION property=$ID replay=$dst"
      rc=1
    else
      echo "fuzz target $TARGET ($mode corpus) stopped without an oracle violation (exit $st): $(tail -3 $LOG | tr '\n' ' ' | cut -c1-300)"
      [ $rc -eq 0 ] && rc=2
    fi
  elif [ $st -ne 0 ]; then
    echo "fuzz target $TARGET ($mode corpus) exit $st: $(tail -2 $LOG | tr '\n' ' ' | cut -c1-300)"; [ $rc -eq 0 ] && rc=2
  fi
  stats=$(python3 -c "
import json,sys
s=json.loads(sys.argv[1]); c=(sys.argv[4].split()+['0','0','0'])[:3]
s.append({'target':sys.argv[2],'corpus':sys.argv[3],'runs':int(sys.argv[5] or 0),'seed':int(sys.argv[6]),'edges_covered':int(c[0]),'features':int(c[1]),'corpus_files':int(c[2]),'max_len':int(sys.argv[7]),'violations':int(sys.argv[8])})
print(json.dumps(s))" "$stats" $TARGET $mode "$cov" "${done_runs:-0}" $SEED $MAXLEN $([ -n "$crash" ] && echo 1 || echo 0))
done
# record the campaigns in the evidence file written by the proptest part
python3 - "$ID" "$stats" <<'P'
import json,sys
i,stats=sys.argv[1],json.loads(sys.argv[2])
p=f'/verif/evidence/{i}.json'
try:
    e=json.load(open(p))
except Exception:
    sys.exit(0)
e['coverage']['fuzz_campaigns']=stats
e['coverage']['evaluations']=e['coverage'].get('evaluations',0)+sum(s['runs'] for s in stats)
e['coverage']['rule']=e['coverage'].get('rule','')+' Thorough tier in addition: coverage-guided libFuzzer+ASan campaigns whose bytes are decoded into the same case structure and judged by the same oracle (see fuzz_campaigns).'
if any(s['violations'] for s in stats): e['violations']=e.get('violations',0)+1
json.dump(e,open(p,'w'),indent=2)
P
echo "fuzz $TARGET: $stats" | cut -c1-400
exit $rc
