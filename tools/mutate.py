#!/usr/bin/env python3
"""Sensitivity runs: apply one textual mutant to /repo, run the quick checks that must catch it,
revert. Usage: mutate.py [name-substring ...]   (no args = all)
Mutants live in /verif/mutants/list.json: {name, file, old, new, props, [silent]}.
'props' must report a VIOLATION; 'silent' props must stay green (mutation does not break them)."""
import json, subprocess, sys, os, time
ROOT='/verif'
muts=json.load(open(f'{ROOT}/mutants/list.json'))
sel=sys.argv[1:]
res=[]
LOG=open('/verif/target/mutate.log','a')
def sh(cmd, **kw):
    try:
        return subprocess.run(cmd, shell=True, capture_output=True, text=True, timeout=1500, **kw)
    except subprocess.TimeoutExpired as e:
        subprocess.run('pkill -f /verif/target/release/vcheck', shell=True)
        return subprocess.CompletedProcess(cmd, 124, stdout=(e.stdout or b'').decode() if isinstance(e.stdout, bytes) else (e.stdout or ''), stderr='')
assert sh('git -C /repo status --porcelain').stdout.strip()=='' , 'repo dirty'
for m in muts:
    if sel and not any(s in m['name'] for s in sel): continue
    if m.get('equivalent'):
        res.append((m['name'],'-','EQUIVALENT: '+m['equivalent'])); continue
    path='/repo/'+m['file']
    src=open(path).read()
    if src.count(m['old'])!=1:
        res.append((m['name'],'SKIP: pattern count %d'%src.count(m['old']))); print(res[-1]); continue
    open(path,'w').write(src.replace(m['old'],m['new']))
    try:
        for p in m.get('props',[]):
            t=time.time()
            r=sh(f'{ROOT}/check {p} --tier quick', env=dict(os.environ, VERIF_SEED=os.environ.get('VERIF_SEED','7')))
            ok = r.returncode==1 and 'VIOLATION property='+p in r.stdout
            line=[l for l in r.stdout.splitlines() if l.startswith(('worker','extra','saved'))][:1]
            res.append((m['name'],p,'CAUGHT' if ok else f'MISSED(exit {r.returncode})', round(time.time()-t,1), (line[0][:200] if line else r.stdout[-300:])))
            print(res[-1], flush=True); LOG.write(repr(res[-1])+'\n'); LOG.flush()
        for p in m.get('silent',[]):
            r=sh(f'{ROOT}/check {p} --tier quick')
            res.append((m['name'],p,'silent-ok' if r.returncode==0 else f'FALSE-ALARM(exit {r.returncode})', r.stdout[-300:] if r.returncode else ''))
            print(res[-1], flush=True); LOG.write(repr(res[-1])+'\n'); LOG.flush()
    finally:
        open(path,'w').write(src)
        sh("cd /verif && git status --porcelain -uall replays | awk '/^\\?\\?/{print $2}' | xargs -r rm -f")
# replays written while mutated are not regressions of the real tree: remove them
sh("cd /verif && git status --porcelain -uall replays | awk '/^\\?\\?/{print $2}' | xargs -r rm -f")
assert sh('git -C /repo status --porcelain').stdout.strip()=='' , 'repo dirty after run'
missed=[r for r in res if 'MISSED' in str(r[2]) or 'FALSE-ALARM' in str(r[2]) or 'SKIP' in str(r[1])]
new=[{'mutant':r[0],'check':r[1],'outcome':r[2],'seconds':(r[3] if len(r)>3 and isinstance(r[3],(int,float)) else None),'first_report':(r[4] if len(r)>4 else (r[3] if len(r)>3 and isinstance(r[3],str) else ''))} for r in res if len(r)>2]
try:
    old=json.load(open('/verif/mutants/results.json'))
except Exception:
    old=[]
keys={(n['mutant'],n['check']) for n in new}
json.dump([o for o in old if (o['mutant'],o['check']) not in keys]+new,open('/verif/mutants/results.json','w'),indent=1)
print('\nSUMMARY: %d results, %d problems'%(len(res),len(missed)))
for r in missed: print('  ',r[:3])
