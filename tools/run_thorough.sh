#!/bin/bash
# Run every thorough check once (sequentially), log id, exit status, wall time.
cd /verif
for id in ${@:-$(python3 -c "import json;print(' '.join(c['property_id'] for c in json.load(open('MANIFEST.json'))['checks']))")}; do
  s=$(date +%s)
  out=$(timeout 14400 ./check $id --tier thorough 2>&1); rc=$?
  e=$(date +%s)
  echo "$id rc=$rc $((e-s))s  $(echo "$out" | grep -E "VIOLATION|INCONCLUSIVE|KNOWN-FINDING|BUILD|fuzz " | head -4 | tr '\n' ' ' | cut -c1-500)"
  cp evidence/$id.json target/thorough-evidence-$id.json 2>/dev/null
done
