#!/bin/bash
# Run every registered quick check once; print id, exit status and wall time.
cd /verif
for id in $(python3 -c "import json;print(' '.join(c['property_id'] for c in json.load(open('MANIFEST.json'))['checks']))"); do
  s=$(date +%s.%N)
  out=$(timeout 1500 ./check $id --tier ${1:-quick} 2>&1); rc=$?
  e=$(date +%s.%N)
  printf "%s rc=%d %.1fs  %s\n" $id $rc $(echo "$e - $s" | bc) "$(echo "$out" | grep -E "VIOLATION|INCONCLUSIVE|KNOWN-FINDING|BUILD" | head -2 | tr '\n' ' ' | cut -c1-200)"
done
